module verif

go 1.21

require (
	github.com/anishathalye/porcupine v1.3.0
	github.com/coredns/coredns v1.10.0
	github.com/dgryski/go-spooky v0.0.0-20170606183049-ed3d087f40e2
	github.com/facebookincubator/dns/dnsrocks v0.0.0
	github.com/miekg/dns v1.1.50
	github.com/repustate/go-cdb v0.0.0-20160430174706-6a418fad95e2
)

require (
	github.com/apparentlymart/go-cidr v1.1.0 // indirect
	github.com/beorn7/perks v1.0.1 // indirect
	github.com/cespare/xxhash/v2 v2.1.2 // indirect
	github.com/coredns/caddy v1.1.1 // indirect
	github.com/dnstap/golang-dnstap v0.4.0 // indirect
	github.com/farsightsec/golang-framestream v0.3.0 // indirect
	github.com/flynn/go-shlex v0.0.0-20150515145356-3f9db97f8568 // indirect
	github.com/fsnotify/fsnotify v1.5.1 // indirect
	github.com/golang/glog v1.0.0 // indirect
	github.com/golang/mock v1.6.0 // indirect
	github.com/golang/protobuf v1.5.2 // indirect
	github.com/grpc-ecosystem/grpc-opentracing v0.0.0-20180507213350-8e809c8a8645 // indirect
	github.com/hashicorp/golang-lru v0.5.4 // indirect
	github.com/matttproud/golang_protobuf_extensions v1.0.1 // indirect
	github.com/opentracing/opentracing-go v1.2.0 // indirect
	github.com/pkg/errors v0.9.1 // indirect
	github.com/prometheus/client_golang v1.13.0 // indirect
	github.com/prometheus/client_model v0.2.0 // indirect
	github.com/prometheus/common v0.37.0 // indirect
	github.com/prometheus/procfs v0.8.0 // indirect
	github.com/sirupsen/logrus v1.8.1 // indirect
	golang.org/x/crypto v0.0.0-20220722155217-630584e8d5aa // indirect
	golang.org/x/net v0.0.0-20220722155237-a158d28d115b // indirect
	golang.org/x/sync v0.0.0-20220722155255-886fb9371eb4 // indirect
	golang.org/x/sys v0.0.0-20220804214406-8e32c043e418 // indirect
	golang.org/x/text v0.3.7 // indirect
	google.golang.org/genproto v0.0.0-20220624142145-8cd45d7dbd1f // indirect
	google.golang.org/grpc v1.49.0 // indirect
	google.golang.org/protobuf v1.28.1 // indirect
)

replace github.com/facebookincubator/dns/dnsrocks => /repo/dnsrocks

replace github.com/repustate/go-cdb => /repo/dnsrocks/go-cdb-mods
