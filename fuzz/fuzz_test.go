// Native fuzz targets used by the thorough tier of C13, C17 and C18
// (go test -run=^$ -fuzz=^FuzzX$ -fuzztime=Nx ./fuzz/).
package fuzz

import (
	"flag"
	"os"
	"strings"
	"testing"

	"github.com/miekg/dns"

	"verif/internal/checks"
)

func TestMain(m *testing.M) {
	flag.Set("logtostderr", "false")
	flag.Set("stderrthreshold", "FATAL")
	// each process (coordinator and workers) gets its own scratch directory for the compiled databases
	dir, err := os.MkdirTemp(os.Getenv("VERIF_SCRATCH"), "fuzz-")
	if err == nil {
		os.Setenv("VERIF_SCRATCH", dir)
		os.Setenv("TMPDIR", dir)
	}
	for _, a := range os.Args {
		if strings.Contains(a, "FuzzWire") || strings.Contains(a, "fuzzworker") {
			checks.FuzzInit()
			break
		}
	}
	code := m.Run()
	if err == nil {
		os.RemoveAll(dir)
	}
	os.Exit(code)
}

func FuzzQuote(f *testing.F) {
	for _, s := range []string{"", "a,b:c", "\\054", "caf\xc3\xa9\xef\xbf\xbd,", "\xff\\x", "\"q\"\\\\", " é", "\\u00e9\\U0001F600"} {
		f.Add([]byte(s))
	}
	f.Fuzz(func(t *testing.T, b []byte) {
		if len(b) > 300 {
			return
		}
		if msg := checks.FuzzQuoteOne(b); msg != "" {
			t.Fatal(msg)
		}
	})
}

func FuzzSvcb(f *testing.F) {
	for _, s := range []string{"alpn=h2", "port=443;alpn=h2|h3;mandatory=alpn", ";alpn=h2;mandatory=alpn", "ipv6hint=::1|2001:db8::1;ipv4hint=1.2.3.4", "echconfig=AAAA;no-default-alpn=", "mandatory=port;port=1;;", "alpn=\"h2\""} {
		f.Add([]byte(s))
	}
	f.Fuzz(func(t *testing.T, b []byte) {
		if len(b) > 400 {
			return
		}
		if msg := checks.FuzzSvcbOne(b); msg != "" {
			t.Fatal(msg)
		}
	})
}

func FuzzWire(f *testing.F) {
	seed := func(name string, qtype uint16, edns bool, ver uint8) {
		m := new(dns.Msg)
		m.SetQuestion(name, qtype)
		if edns {
			o := &dns.OPT{Hdr: dns.RR_Header{Name: ".", Rrtype: dns.TypeOPT}}
			o.SetUDPSize(1232)
			o.SetVersion(ver)
			o.Option = append(o.Option, &dns.EDNS0_SUBNET{Code: dns.EDNS0SUBNET, Family: 1, SourceNetmask: 24, Address: []byte{198, 51, 1, 0}})
			m.Extra = append(m.Extra, o)
		}
		if b, err := m.Pack(); err == nil {
			f.Add(b, uint8(len(name)))
		}
	}
	seed("example.com.", dns.TypeA, false, 0)
	seed(".", dns.TypeDS, true, 0)
	seed("www.sub.example.com.", dns.TypeANY, true, 1)
	seed("a.b.example.com.", dns.TypeTXT, true, 0)
	seed("COM.", dns.TypeNS, false, 0)
	f.Fuzz(func(t *testing.T, b []byte, sel uint8) {
		if len(b) > 1500 {
			return
		}
		if msg := checks.FuzzWireOne(b, sel); msg != "" {
			t.Fatal(msg)
		}
	})
}
