package harness

import (
	"bytes"
	"fmt"
	"io"
	"log"
	"os"
	"path/filepath"
	"sync/atomic"

	dnscdb "github.com/facebookincubator/dns/dnsrocks/dnsdata/cdb"
	"github.com/facebookincubator/dns/dnsrocks/dnsdata/rdb"
	cdb "github.com/repustate/go-cdb"
)

func init() {
	// the compilers chat through the standard logger
	log.SetOutput(io.Discard)
}

// Serial is the fixed SOA serial every harness compile uses.
const Serial uint32 = 2024010101

var dirSeq int64

// NewDir creates a fresh empty directory under the scratch area.
func NewDir(prefix string) string {
	n := atomic.AddInt64(&dirSeq, 1)
	d := filepath.Join(Scratch(), fmt.Sprintf("%s-%d-%d", prefix, os.Getpid(), n))
	os.RemoveAll(d)
	os.MkdirAll(d, 0o755)
	return d
}

// CompileCDB compiles data text into a CDB file with the repository's compiler.
func CompileCDB(text []byte, path string, workers int) (err error) {
	return CompileCDBFrom(bytes.NewReader(text), path, workers)
}

// CompileCDBFrom is CompileCDB reading the data from any reader.
func CompileCDBFrom(rd io.Reader, path string, workers int) (err error) {
	defer func() {
		if e := recover(); e != nil {
			err = fmt.Errorf("the compiler panicked: %v", e)
		}
	}()
	w, err := cdb.NewWriter(path)
	if err != nil {
		return err
	}
	_, err = dnscdb.CreateCDBFromReader(rd, w, Serial, workers)
	cerr := w.Close()
	if err == nil {
		err = cerr
	}
	if err != nil {
		os.Remove(path)
	}
	return err
}

// RDBOpts are the compiler options of one RocksDB configuration.
type RDBOpts struct {
	V2            bool
	Builder       bool
	NumCPU        int
	BatchSize     int
	BatchParallel int
}

// CompileRDB compiles data text into a fresh RocksDB directory.
func CompileRDB(text []byte, dir string, o RDBOpts) error {
	return CompileRDBFrom(bytes.NewReader(text), dir, o)
}

// CompileRDBFrom is CompileRDB reading the data from any reader.
func CompileRDBFrom(rd io.Reader, dir string, o RDBOpts) (err error) {
	defer func() {
		if e := recover(); e != nil {
			err = fmt.Errorf("the compiler panicked: %v", e)
		}
	}()
	os.RemoveAll(dir)
	if err := os.MkdirAll(dir, 0o755); err != nil {
		return err
	}
	if o.NumCPU == 0 {
		o.NumCPU = 2
	}
	opts := rdb.CompilationOptions{
		NumCPU:           o.NumCPU,
		UseV2KeySyntax:   o.V2,
		UseBuilder:       o.Builder,
		BatchNumParallel: o.BatchParallel,
		BatchSize:        o.BatchSize,
	}
	_, err = rdb.Compile(rd, Serial, dir, opts)
	return err
}

// Backend names one storage configuration the serve path is exercised on.
type Backend struct {
	Name   string // cdb, rdb1, rdb2
	Driver string // cdb, rocksdb
	V2     bool
}

// Backends are the three storage configurations of the properties.
var Backends = []Backend{{"cdb", "cdb", false}, {"rdb1", "rocksdb", false}, {"rdb2", "rocksdb", true}}

// Compile compiles text for a backend with default options and returns the path.
func Compile(text []byte, b Backend) (string, error) {
	if b.Driver == "cdb" {
		p := filepath.Join(NewDir("cdb"), "data.cdb")
		return p, CompileCDB(text, p, 2)
	}
	d := NewDir(b.Name)
	return d, CompileRDB(text, d, RDBOpts{V2: b.V2, Builder: true})
}

// Remove deletes a compiled database (file's directory or directory).
func Remove(path string) {
	if filepath.Ext(path) == ".cdb" {
		os.RemoveAll(filepath.Dir(path))
		return
	}
	os.RemoveAll(path)
}
