package harness

import (
	"context"
	"fmt"
	"net"
	"sort"
	"strings"
	"sync"
	"time"

	"github.com/coredns/coredns/request"
	"github.com/facebookincubator/dns/dnsrocks/dnsserver"
	"github.com/miekg/dns"
)

// Writer is a recording dns.ResponseWriter.
type Writer struct {
	Remote net.Addr
	mu     sync.Mutex
	Msgs   []*dns.Msg
	Wire   [][]byte
	Raw    int
	PackEr error
}

// NewWriter returns a writer whose remote address is ip (udp unless tcp).
func NewWriter(ip string, tcp bool) *Writer {
	a := net.ParseIP(ip)
	if tcp {
		return &Writer{Remote: &net.TCPAddr{IP: a, Port: 40212}}
	}
	return &Writer{Remote: &net.UDPAddr{IP: a, Port: 40212}}
}

func (w *Writer) LocalAddr() net.Addr {
	if _, ok := w.Remote.(*net.TCPAddr); ok {
		return &net.TCPAddr{IP: net.ParseIP("127.0.0.1"), Port: 53}
	}
	return &net.UDPAddr{IP: net.ParseIP("127.0.0.1"), Port: 53}
}
func (w *Writer) RemoteAddr() net.Addr { return w.Remote }
func (w *Writer) WriteMsg(m *dns.Msg) error {
	w.mu.Lock()
	defer w.mu.Unlock()
	b, err := m.Pack()
	if err != nil {
		w.PackEr = err
	}
	w.Wire = append(w.Wire, b)
	w.Msgs = append(w.Msgs, m.Copy())
	return nil
}
func (w *Writer) Write(b []byte) (int, error) {
	w.mu.Lock()
	w.Raw++
	w.mu.Unlock()
	return len(b), nil
}
func (w *Writer) Close() error        { return nil }
func (w *Writer) TsigStatus() error   { return nil }
func (w *Writer) TsigTimersOnly(bool) {}
func (w *Writer) Hijack()             {}

// Last returns the last message written (nil if none).
func (w *Writer) Last() *dns.Msg {
	w.mu.Lock()
	defer w.mu.Unlock()
	if len(w.Msgs) == 0 {
		return nil
	}
	return w.Msgs[len(w.Msgs)-1]
}

// Stats is a recording implementation of the public Stats interface.
type Stats struct {
	mu sync.Mutex
	C  map[string]int64
	S  map[string][]int64
}

func NewStats() *Stats { return &Stats{C: map[string]int64{}, S: map[string][]int64{}} }
func (s *Stats) ResetCounterTo(k string, v int64) {
	s.mu.Lock()
	s.C[k] = v
	s.mu.Unlock()
}
func (s *Stats) ResetCounter(k string) { s.ResetCounterTo(k, 0) }
func (s *Stats) IncrementCounterBy(k string, v int64) {
	s.mu.Lock()
	s.C[k] += v
	s.mu.Unlock()
}
func (s *Stats) IncrementCounter(k string) { s.IncrementCounterBy(k, 1) }
func (s *Stats) AddSample(k string, v int64) {
	s.mu.Lock()
	s.S[k] = append(s.S[k], v)
	s.mu.Unlock()
}

// Snapshot copies the counters.
func (s *Stats) Snapshot() map[string]int64 {
	s.mu.Lock()
	defer s.mu.Unlock()
	out := make(map[string]int64, len(s.C))
	for k, v := range s.C {
		out[k] = v
	}
	return out
}

// LogEvent is one call received by the recording logger.
type LogEvent struct {
	Failed bool
	Msg    *dns.Msg
	ECS    *dns.EDNS0_SUBNET
}

// Logger records the calls of the public Logger interface.
type Logger struct {
	mu     sync.Mutex
	Events []LogEvent
}

func (l *Logger) Log(state request.Request, r *dns.Msg, ecs *dns.EDNS0_SUBNET) {
	l.mu.Lock()
	l.Events = append(l.Events, LogEvent{Msg: r, ECS: ecs})
	l.mu.Unlock()
}
func (l *Logger) LogFailed(state request.Request, r *dns.Msg, ecs *dns.EDNS0_SUBNET) {
	l.mu.Lock()
	l.Events = append(l.Events, LogEvent{Failed: true, Msg: r, ECS: ecs})
	l.mu.Unlock()
}

// Take returns and clears the recorded events.
func (l *Logger) Take() []LogEvent {
	l.mu.Lock()
	defer l.mu.Unlock()
	e := l.Events
	l.Events = nil
	return e
}

// Server is a loaded handler plus its recorders.
type Server struct {
	H      *dnsserver.FBDNSDB
	Stats  *Stats
	Logger *Logger
	Path   string
	B      Backend
}

// ServerOpts configures OpenServer.
type ServerOpts struct {
	Cache         bool
	WRSTimeout    int64
	ReloadTimeout time.Duration
	ValidationKey []byte
	Compress      bool
	ControlPath   string // directory watched by WatchControlDirAndReload for the "reload"/"switchdb" files
}

// OpenServer loads a compiled database into a handler.
func OpenServer(path string, b Backend, o ServerOpts) (*Server, error) {
	st, lg := NewStats(), &Logger{}
	if o.ReloadTimeout == 0 {
		o.ReloadTimeout = 30 * time.Second
	}
	h, err := dnsserver.NewFBDNSDBBasic(
		dnsserver.HandlerConfig{AlwaysCompress: o.Compress},
		dnsserver.DBConfig{Path: path, Driver: b.Driver, ReloadTimeout: o.ReloadTimeout, ValidationKey: o.ValidationKey, ControlPath: o.ControlPath},
		dnsserver.CacheConfig{Enabled: o.Cache, LRUSize: 4096, WRSTimeout: o.WRSTimeout}, lg, st)
	if err != nil {
		return nil, err
	}
	if err := h.Load(); err != nil {
		return nil, err
	}
	return &Server{H: h, Stats: st, Logger: lg, Path: path, B: b}, nil
}

// Close shuts the handler down.
func (s *Server) Close() { s.H.Close() }

// Result is the outcome of one ServeDNS call.
type Result struct {
	Msg    *dns.Msg
	Wire   []byte
	Writes int
	Raw    int
	Rcode  int
	Err    error
	Panic  string
	PackEr error
}

// Serve sends one query through the handler with the given max-answer.
func (s *Server) Serve(req *dns.Msg, w *Writer, maxAns int) (res Result) {
	defer func() {
		if e := recover(); e != nil {
			res.Panic = fmt.Sprintf("%v", e)
		}
	}()
	ctx := context.Background()
	if maxAns > 0 {
		ctx = dnsserver.WithMaxAnswer(ctx, maxAns)
	}
	rc, err := s.H.ServeDNS(ctx, w, req)
	res.Rcode, res.Err = rc, err
	res.Msg = w.Last()
	res.Writes = len(w.Msgs)
	res.Raw = w.Raw
	res.PackEr = w.PackEr
	if len(w.Wire) > 0 {
		res.Wire = w.Wire[len(w.Wire)-1]
	}
	return
}

// ---- canonical responses ----

// CanonRR is one record reduced to comparable fields.
type CanonRR struct {
	Owner string
	Type  uint16
	Class uint16
	TTL   uint32
	Rdata string // wire rdata, uncompressed
}

func (c CanonRR) String() string {
	return fmt.Sprintf("%s %d %d %d %x", c.Owner, c.TTL, c.Class, c.Type, c.Rdata)
}

// CanonOf reduces a dns.RR; owner names are lower-cased.
func CanonOf(rr dns.RR) CanonRR {
	h := rr.Header()
	buf := make([]byte, 65535)
	cp := dns.Copy(rr)
	cp.Header().Name = "."
	off, err := dns.PackRR(cp, buf, 0, nil, false)
	rd := ""
	if err == nil && off >= 11 {
		rd = string(buf[11:off])
	} else {
		rd = "PACKERR:" + rr.String()
	}
	return CanonRR{Owner: CanonName(h.Name), Type: h.Rrtype, Class: h.Class, TTL: h.Ttl, Rdata: rd}
}

// CanonName converts a presentation name to the canonical form used by the models:
// lower case, no trailing dot, \DDD escapes resolved ("" = root).
func CanonName(pres string) string {
	buf := make([]byte, 256)
	off, err := dns.PackDomainName(dns.Fqdn(pres), buf, 0, nil, false)
	if err != nil {
		return strings.ToLower(strings.TrimSuffix(pres, "."))
	}
	var labels []string
	for i := 0; i < off && buf[i] != 0; {
		n := int(buf[i])
		labels = append(labels, strings.ToLower(string(buf[i+1:i+1+n])))
		i += 1 + n
	}
	return strings.Join(labels, ".")
}

// Canon is a canonical response.
type Canon struct {
	Question   string // the question section exactly as written (case preserved)
	Hdr        string // opcode and the RD/RA/AD/CD/Z bits
	Rcode      int
	AA, TC     bool
	Answer     []string
	Ns         []string
	Extra      []string // without OPT
	HasOPT     bool
	OPT        string
	HasECS     bool
	ECS        string
	ECSScope   int
	ExtraAddrs []CanonRR
}

// CanonMsg canonicalises a response: per-section sorted multisets, OPT/ECS split out.
func CanonMsg(m *dns.Msg) *Canon {
	c := &Canon{Rcode: m.Rcode, AA: m.Authoritative, TC: m.Truncated}
	c.Hdr = fmt.Sprintf("opcode=%d rd=%v ra=%v ad=%v cd=%v z=%v", m.Opcode, m.RecursionDesired, m.RecursionAvailable, m.AuthenticatedData, m.CheckingDisabled, m.Zero)
	for _, q := range m.Question {
		c.Question += fmt.Sprintf("%s/%d/%d ", q.Name, q.Qtype, q.Qclass)
	}
	for _, rr := range m.Answer {
		c.Answer = append(c.Answer, CanonOf(rr).String())
	}
	for _, rr := range m.Ns {
		c.Ns = append(c.Ns, CanonOf(rr).String())
	}
	for _, rr := range m.Extra {
		if o, ok := rr.(*dns.OPT); ok {
			c.HasOPT = true
			var opts []string
			for _, op := range o.Option {
				if e, ok := op.(*dns.EDNS0_SUBNET); ok {
					c.HasECS = true
					c.ECS = fmt.Sprintf("fam=%d src=%d addr=%s", e.Family, e.SourceNetmask, e.Address)
					c.ECSScope = int(e.SourceScope)
					continue
				}
				opts = append(opts, fmt.Sprintf("%d:%s", op.Option(), op.String()))
			}
			c.OPT = fmt.Sprintf("size=%d do=%v ver=%d xrcode=%d opts=%v", o.UDPSize(), o.Do(), o.Version(), o.ExtendedRcode(), opts)
			continue
		}
		cr := CanonOf(rr)
		if cr.Type == dns.TypeA || cr.Type == dns.TypeAAAA {
			c.ExtraAddrs = append(c.ExtraAddrs, cr)
		}
		c.Extra = append(c.Extra, cr.String())
	}
	sort.Strings(c.Answer)
	sort.Strings(c.Ns)
	sort.Strings(c.Extra)
	return c
}

// Full renders everything (used for equality of two implementations).
func (c *Canon) Full(withExtraAddrs bool) string {
	if c.TC {
		// which records survive a truncation depends on the (unspecified) order of values under one key;
		// a truncated reply is compared by its header only, the size rule itself is C13's / C20's
		return fmt.Sprintf("Q %s\n"+c.Hdr+"\nrcode=%d aa=%v tc=true (sections not compared)\nOPT %v %s\nECS %v %s scope=%d", c.Question, c.Rcode, c.AA, c.HasOPT, c.OPT, c.HasECS, c.ECS, c.ECSScope)
	}
	extra := c.Extra
	if !withExtraAddrs {
		// additional addresses are randomised (max one per family): keep owner+type only
		var e []string
		for _, x := range c.Extra {
			e = append(e, x)
		}
		extra = nil
		seen := map[string]bool{}
		for _, a := range c.ExtraAddrs {
			seen[a.String()] = true
		}
		for _, x := range e {
			if !seen[x] {
				extra = append(extra, x)
			}
		}
		for _, a := range c.ExtraAddrs {
			extra = append(extra, fmt.Sprintf("%s addr-type=%d", a.Owner, a.Type))
		}
		sort.Strings(extra)
	}
	return fmt.Sprintf("Q %s\n"+c.Hdr+"\nrcode=%d aa=%v tc=%v\nAN %s\nNS %s\nAR %s\nOPT %v %s\nECS %v %s scope=%d",
		c.Question, c.Rcode, c.AA, c.TC, strings.Join(c.Answer, " | "), strings.Join(c.Ns, " | "), strings.Join(extra, " | "), c.HasOPT, c.OPT, c.HasECS, c.ECS, c.ECSScope)
}

// MakeQuery builds a query message.
func MakeQuery(presName string, qtype uint16, id uint16) *dns.Msg {
	m := new(dns.Msg)
	m.Id = id
	m.RecursionDesired = false
	m.Question = []dns.Question{{Name: presName, Qtype: qtype, Qclass: dns.ClassINET}}
	return m
}

// AddECS attaches an OPT with a client-subnet option (cidr) to a query.
func AddECS(m *dns.Msg, cidr string, udpSize uint16) error {
	o := &dns.OPT{Hdr: dns.RR_Header{Name: ".", Rrtype: dns.TypeOPT}}
	o.SetUDPSize(udpSize)
	if cidr != "" {
		ip, n, err := net.ParseCIDR(cidr)
		if err != nil {
			return err
		}
		e := &dns.EDNS0_SUBNET{Code: dns.EDNS0SUBNET}
		ones, _ := n.Mask.Size()
		e.SourceNetmask = uint8(ones)
		if v4 := ip.To4(); v4 != nil {
			e.Family, e.Address = 1, n.IP.To4()
		} else {
			e.Family, e.Address = 2, n.IP.To16()
		}
		o.Option = append(o.Option, e)
	}
	m.Extra = append(m.Extra, o)
	return nil
}
