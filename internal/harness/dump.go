// Package harness holds drivers shared by the monitors: raw dumps of compiled
// databases, compile helpers, handler construction, recording writers.
package harness

import (
	"encoding/binary"
	"fmt"
	"os"
	"sort"
	"strings"

	rocksdb "github.com/facebookincubator/dns/dnsrocks/cgo-rocksdb"
	cdb "github.com/repustate/go-cdb"
)

// Dump is a database read as key -> list of values (in stored order).
type Dump map[string][]string

// Scratch returns the per-run scratch directory.
func Scratch() string {
	if d := os.Getenv("VERIF_SCRATCH"); d != "" {
		return d
	}
	return os.TempDir()
}

// SplitChunks splits a RocksDB multi-value (<4-byte LE length><chunk>...) into its chunks.
func SplitChunks(data []byte) ([]string, error) {
	var out []string
	for len(data) > 0 {
		if len(data) < 4 {
			return out, fmt.Errorf("truncated chunk header")
		}
		n := int(binary.LittleEndian.Uint32(data))
		if 4+n > len(data) {
			return out, fmt.Errorf("chunk overruns value")
		}
		out = append(out, string(data[4:4+n]))
		data = data[4+n:]
	}
	return out, nil
}

// DumpRDB reads a closed RocksDB directory with the repository's own cgo iterator.
func DumpRDB(path string) (Dump, error) {
	opts := rocksdb.NewOptions()
	db, err := rocksdb.OpenDatabase(path, true, false, opts)
	if err != nil {
		opts.FreeOptions()
		return nil, err
	}
	defer db.CloseDatabase()
	ro := rocksdb.NewDefaultReadOptions()
	defer ro.FreeReadOptions()
	it := db.CreateIterator(ro)
	defer it.FreeIterator()
	out := Dump{}
	for it.SeekToFirst(); it.IsValid(); it.Next() {
		k := string(it.Key())
		vals, err := SplitChunks(it.Value())
		if err != nil {
			return nil, fmt.Errorf("key %q: %v", k, err)
		}
		if len(vals) == 0 {
			return nil, fmt.Errorf("key %q stored with an empty value list", k)
		}
		out[k] = vals
	}
	if err := it.GetError(); err != nil {
		return nil, err
	}
	return out, nil
}

// DumpCDB reads every record of a CDB file in file order.
func DumpCDB(path string) (Dump, error) {
	b, err := os.ReadFile(path)
	if err != nil {
		return nil, err
	}
	if len(b) < 2048 {
		return nil, fmt.Errorf("short cdb file")
	}
	eod := binary.LittleEndian.Uint32(b)
	out := Dump{}
	pos := uint32(2048)
	for pos < eod {
		kl := binary.LittleEndian.Uint32(b[pos:])
		dl := binary.LittleEndian.Uint32(b[pos+4:])
		k := string(b[pos+8 : pos+8+kl])
		v := string(b[pos+8+kl : pos+8+kl+dl])
		out[k] = append(out[k], v)
		pos += 8 + kl + dl
	}
	// cross-check with the reader's own slot walk
	c, err := cdb.Open(path)
	if err != nil {
		return nil, err
	}
	defer c.Close()
	n := 0
	c.ForEachKeys(func(h uint32, k, v []byte) { n++ })
	total := 0
	for _, v := range out {
		total += len(v)
	}
	if n != total {
		return nil, fmt.Errorf("cdb slot tables reference %d records, file holds %d", n, total)
	}
	return out, nil
}

// DiffMultiset compares two dumps as key -> multiset of values; returns "" if equal.
func DiffMultiset(got, want Dump) string {
	var msgs []string
	keys := map[string]bool{}
	for k := range got {
		keys[k] = true
	}
	for k := range want {
		keys[k] = true
	}
	sorted := make([]string, 0, len(keys))
	for k := range keys {
		sorted = append(sorted, k)
	}
	sort.Strings(sorted)
	for _, k := range sorted {
		g := append([]string{}, got[k]...)
		w := append([]string{}, want[k]...)
		sort.Strings(g)
		sort.Strings(w)
		if strings.Join(g, "\x00|\x00") != strings.Join(w, "\x00|\x00") || len(g) != len(w) {
			msgs = append(msgs, fmt.Sprintf("key %q: got %d values %q, want %d values %q", k, len(g), trunc(g), len(w), trunc(w)))
			if len(msgs) >= 5 {
				msgs = append(msgs, "...")
				break
			}
		}
	}
	return strings.Join(msgs, "; ")
}

func trunc(v []string) []string {
	if len(v) > 6 {
		v = append(append([]string{}, v[:6]...), "…")
	}
	out := make([]string, len(v))
	for i, s := range v {
		if len(s) > 60 {
			s = s[:60] + "…"
		}
		out[i] = s
	}
	return out
}
