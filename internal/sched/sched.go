// Package sched parks and resumes goroutines of the code under test at the
// named yield points installed by the verif build tag (dnsserver.SetVerifHook).
package sched

import (
	"fmt"
	"sync"
	"sync/atomic"
	"time"
)

// Event is one yield-point passage.
type Event struct {
	Seq   int64
	Point string
	Who   string
}

// Parked represents one armed park request.
type Parked struct {
	point   string
	match   func(arg interface{}) bool
	arrived chan struct{}
	release chan struct{}
	used    int32
}

// Arrived waits until a goroutine is parked here.
func (p *Parked) Arrived(timeout time.Duration) bool {
	select {
	case <-p.arrived:
		return true
	case <-time.After(timeout):
		return false
	}
}

// Release lets the parked goroutine continue (idempotent).
func (p *Parked) Release() {
	defer func() { recover() }()
	close(p.release)
}

// Sched is a hook dispatcher.
type Sched struct {
	mu     sync.Mutex
	parks  []*Parked
	events []Event
	seq    int64
	Name   func(arg interface{}) string // renders the hook argument for the event log
	Delay  func(point string)           // optional: called at every point (stress mode jitter)
}

// New returns an empty scheduler.
func New() *Sched { return &Sched{} }

// ParkAt arms a one-shot park: the first goroutine reaching point whose argument matches is held until Release.
func (s *Sched) ParkAt(point string, match func(arg interface{}) bool) *Parked {
	p := &Parked{point: point, match: match, arrived: make(chan struct{}), release: make(chan struct{})}
	s.mu.Lock()
	s.parks = append(s.parks, p)
	s.mu.Unlock()
	return p
}

// Hook is the function to install with SetVerifHook.
func (s *Sched) Hook(point string, arg interface{}) {
	who := ""
	if s.Name != nil {
		who = s.Name(arg)
	}
	s.mu.Lock()
	s.seq++
	s.events = append(s.events, Event{Seq: s.seq, Point: point, Who: who})
	var hit *Parked
	for _, p := range s.parks {
		if p.point == point && atomic.LoadInt32(&p.used) == 0 && (p.match == nil || p.match(arg)) {
			atomic.StoreInt32(&p.used, 1)
			hit = p
			break
		}
	}
	s.mu.Unlock()
	if s.Delay != nil {
		s.Delay(point)
	}
	if hit != nil {
		close(hit.arrived)
		<-hit.release
	}
}

// ReleaseAll releases every park (used on cleanup so nothing stays blocked).
func (s *Sched) ReleaseAll() {
	s.mu.Lock()
	ps := s.parks
	s.parks = nil
	s.mu.Unlock()
	for _, p := range ps {
		p.Release()
	}
}

// Trace returns and clears the recorded hook-point sequence, rendered as "who@point".
func (s *Sched) Trace() []string {
	s.mu.Lock()
	defer s.mu.Unlock()
	out := make([]string, len(s.events))
	for i, e := range s.events {
		out[i] = fmt.Sprintf("%s@%s", e.Who, e.Point)
	}
	s.events = nil
	return out
}
