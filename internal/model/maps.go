package model

import "strings"

// Maps is the structured description of the client->location configuration of a data file.
type Maps struct {
	Subnets  map[string][]Subnet // map id (2 bytes; "\x00\x00" = default map) -> declared subnets
	Resolver map[string]string   // lower-case binding ("name", "*.name", "*." for the root wildcard) -> map id
	ECS      map[string]string
}

// NewMaps returns an empty configuration.
func NewMaps() *Maps {
	return &Maps{Subnets: map[string][]Subnet{}, Resolver: map[string]string{}, ECS: map[string]string{}}
}

// MapFor implements the name->map rule: the exact binding of the name, else the
// binding of the nearest proper ancestor declared as wildcard ("*." is the root wildcard).
func MapFor(bind map[string]string, qname string) (string, bool) {
	q := strings.ToLower(strings.TrimSuffix(qname, "."))
	if q != "" {
		if id, ok := bind[q]; ok {
			return id, true
		}
	}
	name := q
	for name != "" {
		p, _ := parent(name)
		if id, ok := bind["*."+p]; ok {
			return id, true
		}
		name = p
	}
	return "", false
}

// ResolverLoc returns the location of a resolver address for qname ("" = none) and the map used.
func (m *Maps) ResolverLoc(qname string, ip [16]byte) (loc string, mapID string) {
	id, ok := MapFor(m.Resolver, qname)
	if !ok {
		id = "\x00\x00"
	}
	if s, ok := LPM(m.Subnets[id], ip, 128); ok {
		return string(s.Loc[:]), id
	}
	return "", id
}

// ECSLoc returns the location chosen by a client subnet: hasMap tells whether the name has a
// client-subnet map; when matched, loc and the matched length (128-based) are returned.
func (m *Maps) ECSLoc(qname string, ip [16]byte, plen int) (loc string, matchedLen int, hasMap, matched bool) {
	id, ok := MapFor(m.ECS, qname)
	if !ok {
		return "", 0, false, false
	}
	if s, ok := LPM(m.Subnets[id], ip, plen); ok {
		return string(s.Loc[:]), s.Len, true, true
	}
	return "", 0, true, false
}
