package model

import "math"

// ChiSquareP returns the upper tail probability P(X >= x) of a chi-square
// distribution with df degrees of freedom (regularised incomplete gamma Q(df/2, x/2)).
func ChiSquareP(x float64, df int) float64 {
	if x <= 0 || df <= 0 {
		return 1
	}
	return gammaQ(float64(df)/2, x/2)
}

func gammaQ(a, x float64) float64 {
	if x < a+1 {
		return 1 - gammaPSeries(a, x)
	}
	return gammaQCF(a, x)
}

func gammaPSeries(a, x float64) float64 {
	lg, _ := math.Lgamma(a)
	ap, sum, del := a, 1/a, 1/a
	for n := 0; n < 10000; n++ {
		ap++
		del *= x / ap
		sum += del
		if math.Abs(del) < math.Abs(sum)*1e-16 {
			break
		}
	}
	return sum * math.Exp(-x+a*math.Log(x)-lg)
}

func gammaQCF(a, x float64) float64 {
	lg, _ := math.Lgamma(a)
	const tiny = 1e-300
	b := x + 1 - a
	c := 1 / tiny
	d := 1 / b
	h := d
	for i := 1; i < 10000; i++ {
		an := -float64(i) * (float64(i) - a)
		b += 2
		d = an*d + b
		if math.Abs(d) < tiny {
			d = tiny
		}
		c = b + an/c
		if math.Abs(c) < tiny {
			c = tiny
		}
		d = 1 / d
		del := d * c
		h *= del
		if math.Abs(del-1) < 1e-16 {
			break
		}
	}
	return math.Exp(-x+a*math.Log(x)-lg) * h
}

// GoodnessOfFit tests observed counts against probabilities; bins with an
// expected count below minExp are merged into one. Returns the p-value and the
// number of bins used (p=1 when fewer than two bins remain).
func GoodnessOfFit(obs []int64, prob []float64, minExp float64) (p float64, bins int, chi float64) {
	var n int64
	for _, o := range obs {
		n += o
	}
	var restO, restE float64
	var O, E []float64
	for i := range obs {
		e := prob[i] * float64(n)
		if e < minExp {
			restO += float64(obs[i])
			restE += e
			continue
		}
		O = append(O, float64(obs[i]))
		E = append(E, e)
	}
	if restE >= minExp {
		O = append(O, restO)
		E = append(E, restE)
	} else if len(E) > 0 {
		// fold the remainder into the largest bin
		O[0] += restO
		E[0] += restE
	}
	if len(E) < 2 {
		return 1, len(E), 0
	}
	for i := range O {
		d := O[i] - E[i]
		chi += d * d / E[i]
	}
	return ChiSquareP(chi, len(E)-1), len(E), chi
}
