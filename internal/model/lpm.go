// Package model holds the reference models the monitors compare the real code with.
package model

import (
	"bytes"
	"fmt"
	"math/rand"
	"net"
)

// Subnet is one declared subnet of a map. IP is 16 bytes, Len is 0..128
// (IPv4 subnets are expressed inside ::ffff:0:0/96, so an IPv4 /n has Len 96+n).
type Subnet struct {
	IP  [16]byte
	Len int
	V4  bool
	Loc [2]byte
}

var v4prefix = [12]byte{0, 0, 0, 0, 0, 0, 0, 0, 0, 0, 0xff, 0xff}

// IsV4 tells whether a 16-byte address is an IPv4-mapped address.
func IsV4(ip [16]byte) bool { return bytes.Equal(ip[:12], v4prefix[:]) }

// Mask returns ip with all bits after n cleared.
func Mask(ip [16]byte, n int) [16]byte {
	var out [16]byte
	for i := 0; i < 16; i++ {
		bits := n - 8*i
		switch {
		case bits >= 8:
			out[i] = ip[i]
		case bits > 0:
			out[i] = ip[i] & (0xff << (8 - bits))
		}
	}
	return out
}

// Last returns the last address of ip/n.
func Last(ip [16]byte, n int) [16]byte {
	out := Mask(ip, n)
	for i := 0; i < 16; i++ {
		bits := n - 8*i
		switch {
		case bits >= 8:
		case bits > 0:
			out[i] |= 0xff >> bits
		default:
			out[i] = 0xff
		}
	}
	return out
}

// Contains tells whether s contains ip.
func (s Subnet) Contains(ip [16]byte) bool { return Mask(ip, s.Len) == Mask(s.IP, s.Len) }

// Text renders the subnet in the family's usual notation.
func (s Subnet) Text() string {
	if s.V4 {
		return fmt.Sprintf("%s/%d", net.IP(s.IP[12:]).String(), s.Len-96)
	}
	return fmt.Sprintf("%s/%d", net.IP(s.IP[:]).String(), s.Len)
}

// IPNet returns the subnet the way Rnet.UnmarshalText hands it to the rearranger (16-byte IP, 128-bit mask).
func (s Subnet) IPNet() *net.IPNet {
	ip := make(net.IP, 16)
	copy(ip, s.IP[:])
	return &net.IPNet{IP: ip, Mask: net.CIDRMask(s.Len, 128)}
}

// LPM is the brute-force oracle: the longest declared subnet of the client's
// family that contains ip and is not longer than plen (128-based). ok=false when none.
func LPM(subnets []Subnet, ip [16]byte, plen int) (best Subnet, ok bool) {
	v4 := IsV4(ip)
	for _, s := range subnets {
		if s.V4 != v4 || s.Len > plen || !s.Contains(ip) {
			continue
		}
		if !ok || s.Len > best.Len {
			best, ok = s, true
		}
	}
	return
}

// Inc returns ip+1 (wrapping).
func Inc(ip [16]byte) [16]byte {
	for i := 15; i >= 0; i-- {
		ip[i]++
		if ip[i] != 0 {
			break
		}
	}
	return ip
}

// Dec returns ip-1 (wrapping).
func Dec(ip [16]byte) [16]byte {
	for i := 15; i >= 0; i-- {
		ip[i]--
		if ip[i] != 0xff {
			break
		}
	}
	return ip
}

// SubnetOpts steers GenSubnets.
type SubnetOpts struct {
	AllowZeroNetwork bool // allow non-default subnets whose network address is :: or 0.0.0.0
	MaxN             int
}

// GenSubnets produces a hostile subnet set for one map: nested, adjacent,
// same network at several lengths, duplicates, defaults, edges of the space.
// No subnet is declared twice with different locations.
func GenSubnets(rng *rand.Rand, nlocs int, o SubnetOpts) []Subnet {
	if o.MaxN == 0 {
		o.MaxN = 40
	}
	n := 1 + rng.Intn(o.MaxN)
	if rng.Intn(3) == 0 {
		n = 1 + rng.Intn(4)
	}
	var out []Subnet
	seen := map[string][2]byte{}
	loc := func() [2]byte { return [2]byte{'a' + byte(rng.Intn(nlocs)), 'x'} }
	add := func(ip [16]byte, l int, v4 bool) {
		if v4 && l < 96 {
			l = 96
		}
		ip = Mask(ip, l)
		if v4 {
			copy(ip[:12], v4prefix[:])
		} else if IsV4(ip) && l >= 96 {
			return // an IPv6-notation subnet inside the mapped block is an IPv4 subnet; keep families unambiguous
		}
		zero := ip == [16]byte{} || (v4 && Mask(ip, 128) == Mask([16]byte{0, 0, 0, 0, 0, 0, 0, 0, 0, 0, 0xff, 0xff}, 128))
		isDefault := (!v4 && l == 0) || (v4 && l == 96)
		if zero && !isDefault && !o.AllowZeroNetwork {
			return
		}
		if !v4 && l > 0 && l < 96 {
			// an IPv6 subnet that numerically contains the whole IPv4-mapped block mixes the families; same class
			var mapped [16]byte
			copy(mapped[:], v4prefix[:])
			if Mask(mapped, l) == ip && !o.AllowZeroNetwork {
				return
			}
		}
		s := Subnet{IP: ip, Len: l, V4: v4}
		key := s.Text()
		if lc, ok := seen[key]; ok {
			s.Loc = lc // identical duplicate only
		} else {
			s.Loc = loc()
			seen[key] = s.Loc
		}
		out = append(out, s)
	}
	randIP := func(v4 bool) [16]byte {
		var ip [16]byte
		for i := range ip {
			switch rng.Intn(4) {
			case 0:
				ip[i] = 0
			case 1:
				ip[i] = 0xff
			default:
				ip[i] = byte(rng.Intn(256))
			}
		}
		if v4 {
			copy(ip[:12], v4prefix[:])
		}
		return ip
	}
	randLen := func(v4 bool) int {
		if v4 {
			switch rng.Intn(6) {
			case 0:
				return 96 + 32
			case 1:
				return 96 + 24
			case 2:
				return 96 + 8*rng.Intn(5)
			}
			return 96 + rng.Intn(33)
		}
		switch rng.Intn(6) {
		case 0:
			return 128
		case 1:
			return 48
		case 2:
			return 8 * rng.Intn(17)
		}
		return rng.Intn(129)
	}
	for len(out) < n {
		v4 := rng.Intn(2) == 0
		switch rng.Intn(12) {
		case 0: // default route
			add([16]byte{}, 0, v4)
		case 1: // nested inside an existing one
			if len(out) > 0 {
				p := out[rng.Intn(len(out))]
				if p.Len < 128 {
					l := p.Len + 1 + rng.Intn(128-p.Len)
					ip := p.IP
					r := randIP(p.V4)
					for i := 0; i < 16; i++ { // keep the parent's prefix, randomise the rest
						m := Mask([16]byte{0xff, 0xff, 0xff, 0xff, 0xff, 0xff, 0xff, 0xff, 0xff, 0xff, 0xff, 0xff, 0xff, 0xff, 0xff, 0xff}, p.Len)
						ip[i] = (p.IP[i] & m[i]) | (r[i] &^ m[i])
					}
					add(ip, l, p.V4)
				}
			}
		case 2: // adjacent (next block of the same size)
			if len(out) > 0 {
				p := out[rng.Intn(len(out))]
				add(Inc(Last(p.IP, p.Len)), p.Len, p.V4)
			}
		case 3: // same network, another length
			if len(out) > 0 {
				p := out[rng.Intn(len(out))]
				add(p.IP, randLen(p.V4), p.V4)
			}
		case 4: // identical duplicate
			if len(out) > 0 {
				p := out[rng.Intn(len(out))]
				add(p.IP, p.Len, p.V4)
			}
		case 5: // first / last block of the family
			var ip [16]byte
			if rng.Intn(2) == 0 {
				for i := range ip {
					ip[i] = 0xff
				}
			}
			add(ip, randLen(v4), v4)
		case 6: // around the mapped block (IPv6 side)
			ip := [16]byte{0, 0, 0, 0, 0, 0, 0, 0, 0, 0, 0xff, 0xfe}
			if rng.Intn(2) == 0 {
				ip = [16]byte{0, 0, 0, 0, 0, 0, 0, 0, 0, 1}
			}
			add(ip, []int{80, 96, 112, 128, 95}[rng.Intn(5)], false)
		case 7: // host route
			if v4 {
				add(randIP(true), 128, true)
			} else {
				add(randIP(false), 128, false)
			}
		default:
			add(randIP(v4), randLen(v4), v4)
		}
	}
	return out
}

// Probe is a client address with its prefix length (128-based).
type Probe struct {
	IP   [16]byte
	Plen int
}

// GenProbes derives hostile probes from a subnet set.
func GenProbes(rng *rand.Rand, subnets []Subnet, extra int) []Probe {
	var out []Probe
	addAll := func(ip [16]byte, lens ...int) {
		v4 := IsV4(ip)
		for _, l := range lens {
			if l > 128 {
				l = 128
			}
			if v4 && l < 96 {
				l = 96
			}
			if l < 0 {
				l = 0
			}
			// host bits beyond the prefix are zero, as a conforming ECS sender produces
			out = append(out, Probe{IP: Mask(ip, l), Plen: l})
		}
		out = append(out, Probe{IP: ip, Plen: 128})
	}
	for _, s := range subnets {
		first, last := Mask(s.IP, s.Len), Last(s.IP, s.Len)
		for _, ip := range [][16]byte{first, last, Dec(first), Inc(last)} {
			addAll(ip, s.Len-1, s.Len, s.Len+1, s.Len+8)
		}
		// random inside
		var r [16]byte
		for i := range r {
			r[i] = byte(rng.Intn(256))
		}
		m := Mask([16]byte{0xff, 0xff, 0xff, 0xff, 0xff, 0xff, 0xff, 0xff, 0xff, 0xff, 0xff, 0xff, 0xff, 0xff, 0xff, 0xff}, s.Len)
		var in [16]byte
		for i := range in {
			in[i] = (first[i] & m[i]) | (r[i] &^ m[i])
		}
		addAll(in, s.Len, 128, s.Len+rng.Intn(129-s.Len))
	}
	// family boundaries
	for _, ip := range [][16]byte{
		{}, {0, 0, 0, 0, 0, 0, 0, 0, 0, 0, 0xff, 0xfe, 0xff, 0xff, 0xff, 0xff},
		{0, 0, 0, 0, 0, 0, 0, 0, 0, 0, 0xff, 0xff}, {0, 0, 0, 0, 0, 0, 0, 0, 0, 0, 0xff, 0xff, 0xff, 0xff, 0xff, 0xff},
		{0, 0, 0, 0, 0, 0, 0, 0, 0, 1}, {0xff, 0xff, 0xff, 0xff, 0xff, 0xff, 0xff, 0xff, 0xff, 0xff, 0xff, 0xff, 0xff, 0xff, 0xff, 0xff},
	} {
		addAll(ip, 128, 120, 96, 64)
	}
	for i := 0; i < extra; i++ {
		var r [16]byte
		for j := range r {
			r[j] = byte(rng.Intn(256))
		}
		if rng.Intn(2) == 0 {
			copy(r[:12], v4prefix[:])
		}
		addAll(r, rng.Intn(129))
	}
	return out
}
