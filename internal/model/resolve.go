package model

import (
	"fmt"
	"sort"
	"strings"
)

// Rec is one declared resource record (structured, independent of the codec).
type Rec struct {
	Owner  string // canonical lower-case name, labels joined by '.', "" = root
	Wild   bool   // declared as *.Owner
	Loc    string // "" (untagged) or a 2-byte location id
	Type   uint16
	TTL    uint32
	Rdata  []byte // uncompressed wire rdata
	Weight uint32 // A / AAAA only
	Target string // NS / MX target (canonical) for additional-section processing
}

const (
	tA     = 1
	tNS    = 2
	tCNAME = 5
	tDS    = 43
	tSOA   = 6
	tMX    = 15
	tAAAA  = 28
	tHTTPS = 65
	tANY   = 255
)

// RR is a record as it should appear in a response.
type RR struct {
	Owner string // canonical lower-case
	Type  uint16
	TTL   uint32
	Rdata string
}

func (r RR) String() string {
	return fmt.Sprintf("%s %d %d %x", r.Owner, r.TTL, r.Type, r.Rdata)
}

// Expected is what the statement of C01 prescribes for one query.
type Expected struct {
	Class   string // refused, referral, positive, cname, wildcard, nodata, nxdomain
	Rcode   int
	AA      bool
	Answer  []RR // exact multiset (address records: every positive-weight candidate)
	SOA     *RR  // required in authority when the authoritative answer is empty
	NS      []RR // referral: exact NS set of the cut
	Cut     string
	Glue    map[string][]RR // referral: per NS target, the visible positive-weight address candidates
	Visible map[string]bool // every visible declared record (String()) for soundness checks, filled lazily by Sound()
}

// Index is a world's records indexed by owner.
type Index struct {
	by map[string][]Rec // key: owner + "\x00" + ("w"|"n")
}

func key(owner string, wild bool) string {
	if wild {
		return owner + "\x00w"
	}
	return owner + "\x00n"
}

// NewIndex indexes records.
func NewIndex(recs []Rec) *Index {
	ix := &Index{by: map[string][]Rec{}}
	for _, r := range recs {
		k := key(r.Owner, r.Wild)
		ix.by[k] = append(ix.by[k], r)
	}
	return ix
}

// Visible returns the records at (owner, wild) a client of location loc may see:
// tagged with its location first, then untagged.
func (ix *Index) Visible(owner string, wild bool, loc string) []Rec {
	var tagged, plain []Rec
	for _, r := range ix.by[key(owner, wild)] {
		switch {
		case r.Loc == "":
			plain = append(plain, r)
		case r.Loc == loc && loc != "":
			tagged = append(tagged, r)
		}
	}
	return append(tagged, plain...)
}

// WildSafe tells whether a (lower-case) label may be crossed by a wildcard.
func WildSafe(label string) bool {
	for i := 0; i < len(label); i++ {
		c := label[i]
		if !(c >= 'a' && c <= 'z' || c >= '0' && c <= '9' || c == '-' || c == '_') {
			return false
		}
	}
	return true
}

func parent(name string) (string, bool) {
	if name == "" {
		return "", false
	}
	if i := strings.IndexByte(name, '.'); i >= 0 {
		return name[i+1:], true
	}
	return "", true
}

func firstLabel(name string) string {
	if i := strings.IndexByte(name, '.'); i >= 0 {
		return name[:i]
	}
	return name
}

// Resolve computes the prescribed response for (qname canonical lower-case, qtype) and a client location.
func (ix *Index) Resolve(qname string, qtype uint16, loc string) *Expected {
	e := &Expected{}
	// zone cut: nearest ancestor-or-self with a visible NS
	findCut := func(from string) (cut string, found, auth bool) {
		cut = from
		for {
			for _, r := range ix.Visible(cut, false, loc) {
				if r.Type == tNS {
					found = true
				}
				if r.Type == tSOA {
					auth = true
				}
			}
			if found {
				return
			}
			p, ok := parent(cut)
			if !ok {
				return
			}
			cut = p
		}
	}
	cut, found, auth := findCut(qname)
	if found && !auth && qtype == tDS && qname != "" {
		// the DS RRset of a delegation lives in the parent zone: the authority decision is taken again one label up
		// (a DS query AT a delegation point is answered from the parent side; strictly below it stays a referral)
		p, _ := parent(qname)
		cut, found, auth = findCut(p)
		if !found {
			e.Class = "unspecified" // a delegation whose parent is in no declared zone: nothing is prescribed
			return e
		}
	}
	if !found {
		e.Class, e.Rcode = "refused", 5
		return e
	}
	e.Cut = cut
	if !auth {
		e.Class, e.Rcode, e.AA = "referral", 0, false
		e.Glue = map[string][]RR{}
		for _, r := range ix.Visible(cut, false, loc) {
			if r.Type != tNS {
				continue
			}
			e.NS = append(e.NS, RR{Owner: cut, Type: tNS, TTL: r.TTL, Rdata: string(r.Rdata)})
			if _, ok := e.Glue[r.Target]; !ok {
				e.Glue[r.Target] = ix.addrCandidates(r.Target, loc)
			}
		}
		return e
	}
	e.AA = true
	// answer search: exact name, then wildcards per ancestor up to and including the cut
	name, wild, viaWild := qname, false, false
	var hit []Rec
	for {
		hit = ix.Visible(name, wild, loc)
		if len(hit) > 0 {
			viaWild = wild
			break
		}
		if name == cut {
			break
		}
		if !WildSafe(firstLabel(name)) {
			break
		}
		p, ok := parent(name)
		if !ok {
			break
		}
		name, wild = p, true
	}
	cname := false
	for _, r := range hit {
		if r.Type == qtype || r.Type == tCNAME || qtype == tANY {
			if (r.Type == tA || r.Type == tAAAA) && r.Weight == 0 {
				continue
			}
			if r.Type == tCNAME {
				cname = true
			}
			e.Answer = append(e.Answer, RR{Owner: qname, Type: r.Type, TTL: r.TTL, Rdata: string(r.Rdata)})
		}
	}
	switch {
	case len(e.Answer) > 0 && cname && qtype != tCNAME:
		e.Class = "cname"
	case len(e.Answer) > 0 && viaWild:
		e.Class = "wildcard"
	case len(e.Answer) > 0:
		e.Class = "positive"
	case len(hit) > 0:
		e.Class = "nodata"
	default:
		e.Class, e.Rcode = "nxdomain", 3
	}
	if len(e.Answer) == 0 {
		for _, r := range ix.Visible(cut, false, loc) {
			if r.Type == tSOA {
				e.SOA = &RR{Owner: cut, Type: tSOA, TTL: r.TTL, Rdata: string(r.Rdata)}
				break
			}
		}
	}
	return e
}

func (ix *Index) addrCandidates(name string, loc string) []RR {
	var out []RR
	for _, r := range ix.Visible(strings.ToLower(name), false, loc) {
		if (r.Type == tA || r.Type == tAAAA) && r.Weight > 0 {
			out = append(out, RR{Owner: name, Type: r.Type, TTL: r.TTL, Rdata: string(r.Rdata)})
		}
	}
	return out
}

// CandidateCount returns the number of visible address records of the type at the
// name that answers qname (for choosing a max-answer that makes the answer deterministic).
func (ix *Index) MaxCandidates() int {
	max := 1
	count := map[string]int{}
	for k, recs := range ix.by {
		for _, r := range recs {
			if r.Type == tA || r.Type == tAAAA {
				count[fmt.Sprintf("%s/%d", k, r.Type)]++
			}
		}
	}
	for _, n := range count {
		if n > max {
			max = n
		}
	}
	return max
}

// SoundSet returns the set of record strings (owner-independent: "ttl type rdata")
// visible to loc at (owner, wild) — used for soundness checks of sections the statement leaves open.
func (ix *Index) SoundAt(owner string, loc string) map[string]bool {
	out := map[string]bool{}
	for _, r := range ix.Visible(strings.ToLower(owner), false, loc) {
		out[fmt.Sprintf("%d %d %x", r.TTL, r.Type, r.Rdata)] = true
	}
	return out
}

// Multiset renders RRs as a sorted list of strings.
func Multiset(rrs []RR) []string {
	out := make([]string, len(rrs))
	for i, r := range rrs {
		out[i] = r.String()
	}
	sort.Strings(out)
	return out
}
