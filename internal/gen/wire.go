package gen

import (
	"math/rand"
	"net"
	"strings"

	"github.com/miekg/dns"
)

// HostileMsg builds a hostile but wire-valid query: it is packed and unpacked
// first; messages that do not survive are discarded (nil is returned).
func HostileMsg(rng *rand.Rand, names []string) (*dns.Msg, []byte) {
	m := new(dns.Msg)
	m.Id = uint16(rng.Intn(65536))
	// header bits
	if rng.Intn(8) == 0 {
		m.Response = true
	}
	if rng.Intn(6) == 0 {
		m.Opcode = []int{dns.OpcodeQuery, dns.OpcodeIQuery, dns.OpcodeStatus, dns.OpcodeNotify, dns.OpcodeUpdate, 7, 15}[rng.Intn(7)]
	}
	m.RecursionDesired = rng.Intn(2) == 0
	m.Authoritative = rng.Intn(10) == 0
	m.Truncated = rng.Intn(12) == 0
	m.CheckingDisabled = rng.Intn(10) == 0
	m.AuthenticatedData = rng.Intn(10) == 0
	m.Zero = rng.Intn(20) == 0
	if rng.Intn(15) == 0 {
		m.Rcode = rng.Intn(16)
	}
	nq := 1
	switch rng.Intn(20) {
	case 0:
		nq = 0
	case 1:
		nq = 2
	case 2:
		nq = 3
	}
	qtypes := []uint16{dns.TypeA, dns.TypeAAAA, dns.TypeNS, dns.TypeSOA, dns.TypeMX, dns.TypeTXT, dns.TypeCNAME, dns.TypeDS, dns.TypeANY, dns.TypeOPT, dns.TypeAXFR, dns.TypeIXFR, 0, 65535, dns.TypeSVCB, dns.TypeHTTPS, dns.TypeDNSKEY, dns.TypeRRSIG, dns.TypeNSEC, dns.TypePTR, dns.TypeSRV, 99, 255, 256}
	classes := []uint16{dns.ClassINET, dns.ClassINET, dns.ClassINET, dns.ClassCHAOS, dns.ClassHESIOD, dns.ClassNONE, dns.ClassANY, 0, 65535}
	for i := 0; i < nq; i++ {
		qt := qtypes[rng.Intn(len(qtypes))]
		if rng.Intn(10) == 0 {
			qt = uint16(1000 + rng.Intn(64000)) // mostly types the DNS library has no mnemonic for
		}
		m.Question = append(m.Question, dns.Question{Name: hostileName(rng, names), Qtype: qt, Qclass: classes[rng.Intn(len(classes))]})
	}
	// OPT records
	nopt := 0
	switch x := rng.Intn(10); {
	case x < 5:
		nopt = 1
	case x == 5:
		nopt = 2
	case x == 6:
		nopt = 3
	}
	for i := 0; i < nopt; i++ {
		o := &dns.OPT{Hdr: dns.RR_Header{Name: ".", Rrtype: dns.TypeOPT}}
		o.SetUDPSize([]uint16{0, 1, 511, 512, 513, 1232, 4096, 65535, uint16(rng.Intn(65536))}[rng.Intn(9)])
		if rng.Intn(3) == 0 {
			o.SetDo()
		}
		if rng.Intn(5) == 0 {
			o.SetVersion(uint8([]int{1, 2, 255, rng.Intn(256)}[rng.Intn(4)]))
		}
		if rng.Intn(10) == 0 {
			o.SetExtendedRcode(uint16(rng.Intn(4096)))
		}
		nop := rng.Intn(4)
		for j := 0; j < nop; j++ {
			switch rng.Intn(8) {
			case 0, 1, 2:
				e := &dns.EDNS0_SUBNET{Code: dns.EDNS0SUBNET}
				e.Family = []uint16{1, 2, 1, 2, 0, 3, 65535}[rng.Intn(7)]
				alen := 4
				if e.Family == 2 || (e.Family != 1 && rng.Intn(2) == 0) {
					alen = 16
				}
				a := make([]byte, alen)
				rng.Read(a)
				if rng.Intn(3) == 0 {
					a = make([]byte, alen)
				}
				e.Address = net.IP(a)
				e.SourceNetmask = uint8([]int{0, 1, 8, 24, 25, 32, 33, 48, 56, 64, 96, 127, 128, 129, 255, rng.Intn(256)}[rng.Intn(16)])
				e.SourceScope = uint8([]int{0, 0, 0, 24, 255}[rng.Intn(5)])
				o.Option = append(o.Option, e)
			case 3:
				o.Option = append(o.Option, &dns.EDNS0_COOKIE{Code: dns.EDNS0COOKIE, Cookie: "0123456789abcdef"})
			case 4:
				o.Option = append(o.Option, &dns.EDNS0_NSID{Code: dns.EDNS0NSID, Nsid: ""})
			case 5:
				o.Option = append(o.Option, &dns.EDNS0_PADDING{Padding: make([]byte, rng.Intn(40))})
			case 6:
				d := make([]byte, rng.Intn(20))
				rng.Read(d)
				o.Option = append(o.Option, &dns.EDNS0_LOCAL{Code: uint16(65001 + rng.Intn(500)), Data: d})
			default:
				o.Option = append(o.Option, &dns.EDNS0_LOCAL{Code: uint16(20 + rng.Intn(60000)), Data: nil})
			}
		}
		m.Extra = append(m.Extra, o)
	}
	if rng.Intn(12) == 0 { // stray records in other sections
		rr, _ := dns.NewRR("stray.example.com. 300 IN A 192.0.2.55")
		switch rng.Intn(3) {
		case 0:
			m.Answer = append(m.Answer, rr)
		case 1:
			m.Ns = append(m.Ns, rr)
		default:
			m.Extra = append([]dns.RR{rr}, m.Extra...)
		}
	}
	b, err := m.Pack()
	if err != nil {
		return nil, nil
	}
	u := new(dns.Msg)
	if err := u.Unpack(b); err != nil {
		return nil, nil
	}
	return u, b
}

func hostileName(rng *rand.Rand, names []string) string {
	switch rng.Intn(14) {
	case 0:
		return "."
	case 1:
		return strings.Repeat("a", 63) + "."
	case 2: // 255-byte name: 3 labels of 63 + one of 61
		return strings.Repeat("a", 63) + "." + strings.Repeat("b", 63) + "." + strings.Repeat("c", 63) + "." + strings.Repeat("d", 61) + "."
	case 3:
		return `\000.\255\255.a\.b.example.com.`
	case 4:
		return strings.Repeat("x.", 126)
	case 5:
		return "*.example.com."
	case 6:
		return `a\032b.\*.\\.example.com.`
	case 7:
		return "COM."
	case 8:
		return "com."
	}
	if len(names) > 0 {
		n := names[rng.Intn(len(names))]
		p := Presentation(n)
		switch rng.Intn(5) {
		case 0:
			p = strings.ToUpper(p)
		case 1:
			p = Presentation(join(Labels[rng.Intn(len(Labels))], n))
		case 2:
			p = Presentation(join("\x00", n))
		}
		return p
	}
	return "example.com."
}
