// Package gen holds the seeded generators: data files (as a structured
// description plus rendered text), queries, clients.
package gen

import (
	"encoding/binary"
	"fmt"
	"math/rand"
	"net"
	"strings"

	"verif/internal/model"
)

// DNS type codes used by the generator.
const (
	TA     = 1
	TNS    = 2
	TCNAME = 5
	TSOA   = 6
	TPTR   = 12
	THINFO = 13
	TMX    = 15
	TTXT   = 16
	TAAAA  = 28
	TSRV   = 33
	TSVCB  = 64
	THTTPS = 65
	TCAA   = 257
	TPRIV  = 65280
)

// Default TTLs of the data format.
const (
	LongTTL  = 86400
	ShortTTL = 2560
	LinkTTL  = 259200
)

// World is the structured description of a data file.
type World struct {
	Lines   []Line
	Recs    []model.Rec
	Zones   []string // apexes (canonical names), for the query generator
	Owners  []string // every owner name used (canonical)
	Locs    []string // 2-byte location ids in use
	Maps    *model.Maps
	Comment string
}

// Line is one data line with the records it declares.
type Line struct {
	Text string
	Recs []model.Rec
}

// Text renders the file.
func (w *World) Text() []byte {
	var sb strings.Builder
	for _, l := range w.Lines {
		sb.WriteString(l.Text)
		sb.WriteByte('\n')
	}
	return []byte(sb.String())
}

// ---- name helpers ----

// NameWire encodes a canonical name ("" = root, labels joined by '.') as uncompressed wire data.
func NameWire(name string) []byte {
	var out []byte
	if name != "" {
		for _, l := range strings.Split(name, ".") {
			out = append(out, byte(len(l)))
			out = append(out, l...)
		}
	}
	return append(out, 0)
}

// Octal escapes every byte that is not a plain letter/digit/-/_/./* for use in a data field.
func Octal(s string) string {
	var sb strings.Builder
	for i := 0; i < len(s); i++ {
		c := s[i]
		if c >= 'a' && c <= 'z' || c >= 'A' && c <= 'Z' || c >= '0' && c <= '9' || c == '-' || c == '_' || c == '.' || c == '*' || c == '/' || c == '=' || c == ' ' {
			sb.WriteByte(c)
		} else {
			fmt.Fprintf(&sb, "\\%03o", c)
		}
	}
	return sb.String()
}

// OctalAll escapes every byte.
func OctalAll(s string) string {
	var sb strings.Builder
	for i := 0; i < len(s); i++ {
		fmt.Fprintf(&sb, "\\%03o", s[i])
	}
	return sb.String()
}

// Presentation renders a canonical name in DNS presentation format (fully qualified).
func Presentation(name string) string {
	if name == "" {
		return "."
	}
	var sb strings.Builder
	for _, l := range strings.Split(name, ".") {
		for i := 0; i < len(l); i++ {
			c := l[i]
			switch {
			case c == '.' || c == '\\' || c == '"' || c == '(' || c == ')' || c == ';' || c == '@' || c == '$' || c == ' ':
				sb.WriteByte('\\')
				sb.WriteByte(c)
			case c < 0x21 || c > 0x7e:
				fmt.Fprintf(&sb, "\\%03d", c)
			default:
				sb.WriteByte(c)
			}
		}
		sb.WriteByte('.')
	}
	return sb.String()
}

// Parent strips the first label ("" for a TLD; ok=false for the root).
func Parent(name string) (string, bool) {
	if name == "" {
		return "", false
	}
	if i := strings.IndexByte(name, '.'); i >= 0 {
		return name[i+1:], true
	}
	return "", true
}

func randCase(rng *rand.Rand, s string) string {
	if rng.Intn(3) != 0 {
		return s
	}
	b := []byte(s)
	for i, c := range b {
		if c >= 'a' && c <= 'z' && rng.Intn(2) == 0 {
			b[i] = c - 32
		}
	}
	return string(b)
}

// ---- line builder ----

type builder struct {
	rng *rand.Rand
	w   *World
}

// join renders fields with a separator; trailing empty fields are dropped.
// ':' is chosen only when no field contains ':' (IPv6 addresses need ',').
func (b *builder) join(prefix string, fields ...string) string {
	n := len(fields)
	for n > 1 && fields[n-1] == "" {
		n--
	}
	fields = fields[:n]
	sep := ","
	colon := true
	for _, f := range fields {
		if strings.ContainsAny(f, ":,") {
			colon = false
		}
	}
	if colon && b.rng.Intn(4) == 0 {
		sep = ":"
	}
	return prefix + strings.Join(fields, sep)
}

func (b *builder) ttlField(def uint32) (string, uint32) {
	switch b.rng.Intn(5) {
	case 0:
		return "", def
	case 1:
		return "0", 0
	case 2:
		return "4294967295", 4294967295 & 0x7fffffff // see note in ttl()
	default:
		t := uint32(1 + b.rng.Intn(100000))
		return fmt.Sprint(t), t
	}
}

// ttl picks an explicit or default TTL. TTLs above 2^31-1 are avoided: DNS caps them and this is not what the property is about.
func (b *builder) ttl(def uint32) (string, uint32) {
	f, v := b.ttlField(def)
	if f == "4294967295" {
		return "2147483647", 2147483647
	}
	return f, v
}

func (b *builder) locField(loc string) string {
	if loc == "" {
		return ""
	}
	if b.rng.Intn(2) == 0 && loc[0] >= 'a' && loc[0] <= 'z' {
		return loc
	}
	return OctalAll(loc)
}

// ownerLC renders an owner without case variation: used by the lines whose rdata is
// derived from the owner text (x.ns.dom / x.mx.dom / x.srv.dom, hostmaster.dom), where the
// declared case would leak into rdata and into glue lookups.
func (b *builder) ownerLC(name string) string {
	if name == "" {
		return "."
	}
	return Octal(name)
}

func (b *builder) owner(name string, wild bool) string {
	s := randCase(b.rng, Octal(name))
	if name == "" {
		s = "."
		if wild {
			return "*."
		}
		return s
	}
	if wild {
		s = "*." + s
	}
	return s
}

func (b *builder) add(text string, recs ...model.Rec) {
	b.w.Lines = append(b.w.Lines, Line{Text: text, Recs: recs})
	b.w.Recs = append(b.w.Recs, recs...)
}

func u16(v int) []byte { var x [2]byte; binary.BigEndian.PutUint16(x[:], uint16(v)); return x[:] }
func u32(v uint32) []byte {
	var x [4]byte
	binary.BigEndian.PutUint32(x[:], v)
	return x[:]
}

// expand applies the x -> x.<infix>.dom rule for names without a dot.
func expand(x, infix, dom string) string {
	if strings.Contains(x, ".") {
		return strings.TrimSuffix(x, ".")
	}
	if dom == "" {
		return x + "." + infix
	}
	return x + "." + infix + "." + dom
}

func addrRec(owner string, wild bool, loc string, ttl uint32, ip net.IP, weight uint32) model.Rec {
	r := model.Rec{Owner: owner, Wild: wild, Loc: loc, TTL: ttl, Weight: weight}
	if v4 := ip.To4(); v4 != nil {
		r.Type, r.Rdata = TA, append([]byte{}, v4...)
	} else {
		r.Type, r.Rdata = TAAAA, append([]byte{}, ip.To16()...)
	}
	return r
}

func (b *builder) randIP() net.IP {
	if b.rng.Intn(3) == 0 {
		ip := net.ParseIP("2001:db8::")
		ip[15] = byte(1 + b.rng.Intn(250))
		ip[14] = byte(b.rng.Intn(4))
		return ip
	}
	return net.IPv4(192, 0, 2, byte(1+b.rng.Intn(250)))
}

// soaLine emits a Z line.
func (b *builder) soaLine(zone, loc string) {
	mname := "ns1." + zone
	if zone == "" {
		mname = "ns1"
	}
	rname := "admin." + zone
	if zone == "" {
		rname = "admin"
	}
	ser, ref, ret, exp, min := uint32(2024010101), uint32(16384), uint32(2048), uint32(1048576), uint32(2560)
	f := make([]string, 11)
	f[0], f[1], f[2] = b.owner(zone, false), mname, rname
	if b.rng.Intn(2) == 0 {
		ser = uint32(1 + b.rng.Intn(1000000))
		f[3] = fmt.Sprint(ser)
	}
	if b.rng.Intn(2) == 0 {
		ref, ret, exp, min = uint32(b.rng.Intn(100000)), uint32(b.rng.Intn(100000)), uint32(b.rng.Intn(10000000)), uint32(b.rng.Intn(100000))
		f[4], f[5], f[6], f[7] = fmt.Sprint(ref), fmt.Sprint(ret), fmt.Sprint(exp), fmt.Sprint(min)
	}
	var ttl uint32
	f[8], ttl = b.ttl(ShortTTL)
	f[10] = b.locField(loc)
	rd := append(NameWire(mname), NameWire(rname)...)
	for _, v := range []uint32{ser, ref, ret, exp, min} {
		rd = append(rd, u32(v)...)
	}
	b.add(b.join("Z", f...), model.Rec{Owner: zone, Loc: loc, Type: TSOA, TTL: ttl, Rdata: rd})
}

// nsLine emits '&' (or '.' when withSOA) for zone/cut name with one name server.
func (b *builder) nsLine(withSOA bool, name, loc, x string, ip net.IP) {
	target := expand(x, "ns", name)
	f := make([]string, 6)
	f[0] = b.ownerLC(name)
	if ip != nil {
		f[1] = ip.String()
	}
	f[2] = x
	var ttl uint32
	f[3], ttl = b.ttl(LinkTTL)
	f[5] = b.locField(loc)
	var recs []model.Rec
	prefix := "&"
	if withSOA {
		prefix = "."
		soaTTL := uint32(ShortTTL)
		if ttl == 0 {
			soaTTL = 0
		}
		adm := "hostmaster." + name
		if name == "" {
			adm = "hostmaster"
		}
		rd := append(NameWire(target), NameWire(adm)...)
		for _, v := range []uint32{2024010101, 16384, 2048, 1048576, 2560} {
			rd = append(rd, u32(v)...)
		}
		recs = append(recs, model.Rec{Owner: name, Loc: loc, Type: TSOA, TTL: soaTTL, Rdata: rd})
	}
	recs = append(recs, model.Rec{Owner: name, Loc: loc, Type: TNS, TTL: ttl, Rdata: NameWire(target), Target: target})
	if ip != nil {
		recs = append(recs, addrRec(target, false, loc, ttl, ip, 1))
	}
	b.add(b.join(prefix, f...), recs...)
}

func (b *builder) addrLine(name string, wild bool, loc string, ip net.IP, weightMode int) {
	f := make([]string, 6)
	f[0], f[1] = b.owner(name, wild), ip.String()
	var ttl uint32
	f[2], ttl = b.ttl(LongTTL)
	f[4] = b.locField(loc)
	weight := uint32(1)
	switch weightMode {
	case 1:
		weight = 0
		f[5] = "0"
	case 2:
		weight = 7
		f[5] = "7"
	case 3:
		weight = 4294967295
		f[5] = "4294967295"
	case 4:
		weight = 1
		f[5] = "1"
	}
	b.add(b.join("+", f...), addrRec(name, wild, loc, ttl, ip, weight))
}

func reverseName(ip net.IP) string {
	if v4 := ip.To4(); v4 != nil {
		return fmt.Sprintf("%d.%d.%d.%d.in-addr.arpa", v4[3], v4[2], v4[1], v4[0])
	}
	var p []string
	ip = ip.To16()
	for i := 15; i >= 0; i-- {
		p = append(p, fmt.Sprintf("%x", ip[i]&0xf), fmt.Sprintf("%x", ip[i]>>4))
	}
	return strings.Join(p, ".") + ".ip6.arpa"
}

func (b *builder) paddrLine(name string, wild bool, loc string, ip net.IP) {
	f := make([]string, 5)
	f[0], f[1] = b.ownerLC(name), ip.String() // the PTR target is derived from the owner text: no case variation
	if wild {
		f[0] = "*." + f[0]
	}
	var ttl uint32
	f[2], ttl = b.ttl(LongTTL)
	f[4] = b.locField(loc)
	host := name
	if wild {
		host = "*." + name
	}
	b.add(b.join("=", f...), addrRec(name, wild, loc, ttl, ip, 1),
		model.Rec{Owner: reverseName(ip), Loc: loc, Type: TPTR, TTL: ttl, Rdata: NameWire(host)})
}

func (b *builder) mxLine(name, loc, x string, ip net.IP) {
	target := expand(x, "mx", name)
	f := make([]string, 7)
	f[0] = b.ownerLC(name)
	if ip != nil {
		f[1] = ip.String()
	}
	f[2] = x
	dist := 0
	if b.rng.Intn(2) == 0 {
		dist = b.rng.Intn(65536)
		f[3] = fmt.Sprint(dist)
	}
	var ttl uint32
	f[4], ttl = b.ttl(LongTTL)
	f[6] = b.locField(loc)
	recs := []model.Rec{{Owner: name, Loc: loc, Type: TMX, TTL: ttl, Rdata: append(u16(dist), NameWire(target)...), Target: target}}
	if ip != nil {
		recs = append(recs, addrRec(target, false, loc, ttl, ip, 1))
	}
	b.add(b.join("@", f...), recs...)
}

func (b *builder) srvLine(name, loc, x string, ip net.IP) {
	target := expand(x, "srv", name)
	f := make([]string, 9)
	f[0] = b.ownerLC(name)
	if ip != nil {
		f[1] = ip.String()
	}
	f[2] = x
	port, pri, weight := 0, 0, 0
	if b.rng.Intn(3) != 0 {
		port, pri, weight = b.rng.Intn(65536), b.rng.Intn(65536), b.rng.Intn(65536)
		f[3], f[4], f[5] = fmt.Sprint(port), fmt.Sprint(pri), fmt.Sprint(weight)
	}
	var ttl uint32
	f[6], ttl = b.ttl(LongTTL)
	f[8] = b.locField(loc)
	rd := append(append(append(u16(pri), u16(weight)...), u16(port)...), NameWire(target)...)
	recs := []model.Rec{{Owner: name, Loc: loc, Type: TSRV, TTL: ttl, Rdata: rd}}
	if ip != nil {
		recs = append(recs, addrRec(target, false, loc, ttl, ip, 1))
	}
	b.add(b.join("S", f...), recs...)
}

func (b *builder) simpleLine(prefix string, typ uint16, name string, wild bool, loc, value string, rdata []byte, target string) {
	f := make([]string, 5)
	f[0], f[1] = b.owner(name, wild), value
	var ttl uint32
	f[2], ttl = b.ttl(LongTTL)
	f[4] = b.locField(loc)
	b.add(b.join(prefix, f...), model.Rec{Owner: name, Wild: wild, Loc: loc, Type: typ, TTL: ttl, Rdata: rdata, Target: target})
}

func (b *builder) txtLine(name string, wild bool, loc string) {
	var txt string
	switch b.rng.Intn(6) {
	case 0:
		txt = ""
	case 1:
		txt = strings.Repeat("t", 127+b.rng.Intn(140))
	case 2:
		txt = "v=spf1 a:b,c \\ \"q\" \x00\xff end"
	default:
		txt = fmt.Sprintf("text-%d", b.rng.Intn(1000))
	}
	b.txtWith(name, wild, loc, txt)
}

// txtTrailing declares a TXT record whose text ends in a blank or a TAB and is the last field of its line
// (trailing whitespace belongs to the field: nothing may strip it).
func (b *builder) txtTrailing(name string) {
	txt := []string{"v=spf1 -all ", "ends with a tab\t", "two blanks  "}[b.rng.Intn(3)]
	rd := append([]byte{byte(len(txt))}, txt...)
	b.add("'"+b.owner(name, false)+","+txt, model.Rec{Owner: name, Type: TTXT, TTL: LongTTL, Rdata: rd})
}

// txtWith declares one TXT record with the given text.
func (b *builder) txtWith(name string, wild bool, loc string, txt string) {
	var rd []byte
	for s := txt; len(s) > 0; {
		n := len(s)
		if n > 127 {
			n = 127
		}
		rd = append(rd, byte(n))
		rd = append(rd, s[:n]...)
		s = s[n:]
	}
	if txt == "" {
		// an empty TXT has no character-string at all in this format; a served TXT needs at least one,
		// so the generator does not declare empty texts
		txt = "x"
		rd = []byte{1, 'x'}
	}
	b.simpleLine("'", TTXT, name, wild, loc, Octal(txt), rd, "")
}

func (b *builder) auxLine(name, loc string) {
	var typ int
	var rd []byte
	switch b.rng.Intn(4) {
	case 3:
		// a generic line may also carry a type the compiler has a dedicated line for (the number must stay a number)
		switch b.rng.Intn(3) {
		case 0:
			typ = TTXT
			rd = append([]byte{7}, "generic"...)
		case 1:
			typ = TMX
			rd = append([]byte{0, 20}, NameWire("mx.example.net")...)
		default:
			typ = TPTR
			rd = []byte(NameWire("ptr.example.net"))
		}
	case 0:
		typ = THINFO
		rd = append([]byte{3}, "cpu"...)
		rd = append(rd, 2, 'o', 's')
	case 1:
		typ = TCAA
		rd = append([]byte{0, 5}, "issue"...)
		rd = append(rd, "ca.example.net"...)
	default:
		typ = TPRIV + b.rng.Intn(3)
		n := b.rng.Intn(12)
		for i := 0; i < n; i++ {
			rd = append(rd, byte(b.rng.Intn(256)))
		}
	}
	f := make([]string, 6)
	f[0], f[1], f[2] = b.owner(name, false), fmt.Sprint(typ), OctalAll(string(rd))
	var ttl uint32
	f[3], ttl = b.ttl(LongTTL)
	f[5] = b.locField(loc)
	b.add(b.join(":", f...), model.Rec{Owner: name, Loc: loc, Type: uint16(typ), TTL: ttl, Rdata: rd})
}

func (b *builder) svcbLine(https bool, name string, wild bool, loc string) {
	typ, prefix := uint16(TSVCB), "B"
	if https {
		typ, prefix = THTTPS, "H"
	}
	target := []string{"", "svc.example.net", name}[b.rng.Intn(3)]
	prio := 1 + b.rng.Intn(3)
	var params string
	var wire []byte
	switch b.rng.Intn(4) {
	case 0:
		prio = 0 // alias mode
		if target == "" {
			target = "alias.example.net"
		}
	case 1:
		params = "alpn=h2|h3"
		wire = []byte{0, 1, 0, 6, 2, 'h', '2', 2, 'h', '3'}
	case 2:
		params = "port=8443;ipv4hint=192.0.2.1"
		wire = []byte{0, 3, 0, 2, 0x20, 0xfb, 0, 4, 0, 4, 192, 0, 2, 1}
	default:
		params = "ipv6hint=2001:db8::1;alpn=h2"
		wire = append([]byte{0, 1, 0, 3, 2, 'h', '2', 0, 6, 0, 16}, net.ParseIP("2001:db8::1").To16()...)
	}
	tf := target
	if tf == "" {
		tf = "."
	}
	ttlF, ttl := b.ttl(0) // the B/H parser has no default TTL: an omitted field means 0
	rd := append(u16(prio), NameWire(target)...)
	rd = append(rd, wire...)
	text := prefix + strings.Join([]string{b.owner(name, wild), tf, ttlF, b.locField(loc), fmt.Sprint(prio), params}, ",")
	b.add(text, model.Rec{Owner: name, Wild: wild, Loc: loc, Type: typ, TTL: ttl, Rdata: rd, Target: map[bool]string{true: name, false: ""}[https]})
}

// AddrLineExact emits a '+' line with the given weight and TTL fields always explicit.
func (b *builder) addrLineExact(name string, wild bool, loc string, ip net.IP, ttl uint32, weight uint32) {
	f := []string{b.owner(name, wild), ip.String(), fmt.Sprint(ttl), "", b.locField(loc), fmt.Sprint(weight)}
	b.add(b.join("+", f...), addrRec(name, wild, loc, ttl, ip, weight))
}

// WeightedName describes one name of a C11 world.
type WeightedName struct {
	Name string
	Wild bool // declared as *.Name; queried as a.<Name>
}

// GenWeighted builds a data file whose names carry hostile weighted address sets,
// plus an NS delegation and an MX whose targets have several weighted addresses.
func GenWeighted(rng *rand.Rand) (*World, []WeightedName) {
	w := &World{Maps: model.NewMaps(), Locs: []string{"aa", "bb"}, Zones: []string{"example.com"}}
	b := &builder{rng: rng, w: w}
	b.nsLine(true, "example.com", "", "ns1.example.com", net.ParseIP("192.0.2.1"))
	addSubnet(b, "\x00\x00", "aa", "10.1.0.0/16")
	addSubnet(b, "\x00\x00", "bb", "10.2.0.0/16")
	weights := []uint32{0, 1, 1, 2, 3, 7, 10, 100, 4294967295}
	var names []WeightedName
	ipn := 0
	nextIP := func(v6 bool) net.IP {
		ipn++
		if v6 {
			ip := net.ParseIP("2001:db8::")
			ip[14], ip[15] = byte(ipn>>8), byte(ipn)
			return ip
		}
		return net.IPv4(192, 0, byte(2+ipn>>8), byte(ipn))
	}
	fam := 0 // 0: both families, 4 / 6: addresses of that family only
	fill := func(name string, wild bool) {
		k := 1 + rng.Intn(8)
		shape := rng.Intn(6)
		for i := 0; i < k; i++ {
			wt := weights[rng.Intn(len(weights))]
			switch shape {
			case 0:
				wt = 0 // all zero
			case 1:
				wt = 1 // uniform
			case 2:
				wt = uint32(1 + i) // ratios
			}
			loc := ""
			switch rng.Intn(5) {
			case 0:
				loc = "aa"
			case 1:
				loc = "bb"
			}
			v6 := rng.Intn(3) == 0
			if fam != 0 {
				v6 = fam == 6
			}
			b.addrLineExact(name, wild, loc, nextIP(v6), uint32(60+rng.Intn(1000)), wt)
		}
	}
	for i := 0; i < 10; i++ {
		n := fmt.Sprintf("w%d.example.com", i)
		wild := i%4 == 3
		fill(n, wild)
		names = append(names, WeightedName{Name: n, Wild: wild})
	}
	// delegation and MX with multi-address targets
	b.nsLine(false, "deleg.example.com", "", "nsd.example.com", nil)
	fill("nsd.example.com", false)
	b.nsLine(false, "deleg.example.com", "", "nse.example.com", nil)
	fill("nse.example.com", false)
	b.mxLine("mxn.example.com", "", "mail.example.com", nil)
	fill("mail.example.com", false)
	// two MX records naming one host whose addresses are all of one family (the host must still appear once per family)
	b.mxLine("mx2.example.com", "", "mail4.example.com", nil)
	b.mxLine("mx2.example.com", "", "mail4.example.com", nil)
	fam = 4
	fill("mail4.example.com", false)
	b.mxLine("mx3.example.com", "", "mail6.example.com", nil)
	b.mxLine("mx3.example.com", "", "mail6.example.com", nil)
	b.mxLine("mx3.example.com", "", "mail.example.com", nil)
	fam = 6
	fill("mail6.example.com", false)
	fam = 0
	for _, r := range w.Recs {
		w.Owners = append(w.Owners, r.Owner)
	}
	return w, names
}
