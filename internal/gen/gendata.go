package gen

import (
	"fmt"
	"math/rand"
	"net"
	"sort"
	"strings"

	"verif/internal/model"
)

// Labels is the tiny label alphabet: names collide, nest and neighbour each other.
var Labels = []string{"a", "b", "www", "x-1", "_s", "0", "a*b", "\xc3\xa9", "ab"}

// SafeLabels are the wildcard-safe ones.
var SafeLabels = []string{"a", "b", "www", "x-1", "_s", "0", "ab"}

// WorldOpts steers GenWorld.
type WorldOpts struct {
	NoLocations bool
	Layout      int // -1 = random
	Small       bool
	ForceECS    bool // always declare locations and a client-subnet map
	ManyAddrs   bool // names with many weighted addresses (C11)
}

func join(label, name string) string {
	if name == "" {
		return label
	}
	return label + "." + name
}

// GenWorld generates a well-formed data file description.
func GenWorld(rng *rand.Rand, o WorldOpts) *World {
	w := &World{Maps: model.NewMaps()}
	b := &builder{rng: rng, w: w}
	layouts := [][]string{
		{"example.com"},
		{"example.com", "sub.example.com"},
		{"example.com", "a.b.example.com"},
		{"example.com", "example.org"},
		{"com"},
		{""},
		{"", "example.com"},
		{"example.com", "sub.example.com", "a.sub.example.com"},
		{"ROOTDELEG"},
		{},
	}
	li := o.Layout
	if li < 0 {
		li = rng.Intn(len(layouts) + 6)
		if li >= len(layouts) {
			li = li % 4 // favour the ordinary layouts
		}
	}
	zones := layouts[li]
	// locations and maps
	if !o.NoLocations && (rng.Intn(5) != 0 || o.ForceECS) {
		// location ids: ordinary ones plus pairs whose bytes collide when printed without padding or separators
		// ({1,23}/{12,3} -> "123"; {0,11}/{0,1} next to a type number), as a cache key might do; and ids differing by letter case only
		all := []string{"aa", "bb", "c\x00", "\x00\x07"}
		switch rng.Intn(5) {
		case 0:
			all = []string{"\x01\x17", "\x0c\x03", "aa", "\x00\x07"}
		case 1:
			all = []string{"\x00\x0b", "\x00\x01", "bb", "\x01\x10"}
		case 2:
			all = []string{"ab", "Ab", "aB", "\x00M"} // ids that are equal after folding letter case (names are folded, ids are not)
		}
		w.Locs = all[:1+rng.Intn(3)]
		if all[0] != "aa" {
			w.Locs = all[:2+rng.Intn(2)] // keep the colliding pair together
		}
		if rng.Intn(5) == 0 {
			w.Locs = all
		}
	}
	genMaps(b, o)

	locOf := func() string {
		if len(w.Locs) == 0 || rng.Intn(3) != 0 {
			return ""
		}
		return w.Locs[rng.Intn(len(w.Locs))]
	}
	ownerSet := map[string]bool{}
	addOwner := func(n string) {
		if !ownerSet[n] {
			ownerSet[n] = true
			w.Owners = append(w.Owners, n)
		}
	}

	if len(zones) == 1 && zones[0] == "ROOTDELEG" {
		// the root is delegated: NS without SOA at the root name
		b.nsLine(false, "", "", "a.root-servers.net", net.ParseIP("198.41.0.4"))
		b.nsLine(false, "", "", "b.root-servers.net", nil)
		addOwner("")
		addOwner("a.root-servers.net")
		w.Zones = []string{""}
		w.Comment = "root delegation"
		finish(w)
		return w
	}
	w.Zones = zones
	for _, z := range zones {
		addOwner(z)
		// apex
		nns := 1 + rng.Intn(2)
		composite := rng.Intn(2) == 0
		for i := 0; i < nns; i++ {
			x := []string{"a", "b", "ns1." + z, "ns.example.net", "ns2." + z}[rng.Intn(5)]
			if z == "" {
				x = []string{"a", "ns.example.net", "ns1"}[rng.Intn(3)]
				if x == "ns1" {
					x = "ns1.rootzone" // must contain a dot to be taken literally
				}
			}
			var ip net.IP
			if rng.Intn(3) != 0 {
				ip = b.randIP()
			}
			if composite && i == 0 {
				b.nsLine(true, z, "", x, ip)
			} else {
				if i == 0 {
					b.soaLine(z, "")
				}
				b.nsLine(false, z, "", x, ip)
			}
			addOwner(expand(x, "ns", z))
		}
		// sometimes an additional location-tagged apex (SOA and NS tagged alike)
		taggedSOA := "" // a zone never gets two SOA records under one (owner, location): which one is served would be unspecified
		if len(w.Locs) > 0 && rng.Intn(4) == 0 {
			l := w.Locs[rng.Intn(len(w.Locs))]
			b.nsLine(true, z, l, "loc-ns."+join("nsx", z), b.randIP())
			taggedSOA = l
		}
		// apex records split between a location and the untagged set: an extra name server only for one
		// location (NS tagged, SOA untagged), or a location-specific SOA next to untagged NS
		if len(w.Locs) > 0 && rng.Intn(3) == 0 {
			l := w.Locs[rng.Intn(len(w.Locs))]
			var ip net.IP
			if rng.Intn(2) == 0 {
				ip = b.randIP()
			}
			b.nsLine(false, z, l, "extra-ns."+join("nsl", z), ip)
			addOwner("extra-ns." + join("nsl", z))
		}
		if len(w.Locs) > 0 && rng.Intn(5) == 0 {
			if l := w.Locs[rng.Intn(len(w.Locs))]; l != taggedSOA {
				b.soaLine(z, l)
			}
		}
		nNames := 3 + rng.Intn(8)
		if o.Small {
			nNames = 2 + rng.Intn(3)
		}
		var names []string
		for i := 0; i < nNames; i++ {
			depth := 1 + rng.Intn(3)
			n := z
			for d := 0; d < depth; d++ {
				n = join(Labels[rng.Intn(len(Labels))], n)
			}
			names = append(names, n)
		}
		// one deliberately shaped wildcard family: *.w.z plus names below it through safe and unsafe labels
		wbase := join(SafeLabels[rng.Intn(len(SafeLabels))], z)
		if rng.Intn(2) == 0 {
			switch rng.Intn(3) {
			case 0:
				b.addrLine(wbase, true, locOf(), b.randIP(), 0)
			case 1:
				b.txtLine(wbase, true, locOf())
			default:
				b.simpleLine("C", TCNAME, wbase, true, locOf(), "target.example.net", NameWire("target.example.net"), "")
			}
			addOwner(wbase)
			if rng.Intn(2) == 0 { // an explicit name under the wildcard
				names = append(names, join("a", wbase))
			}
			if rng.Intn(2) == 0 { // an empty non-terminal-ish deeper name
				names = append(names, join("b", join("a*b", wbase)))
			}
		}
		// a deep and long owner name (many labels, one 63-byte label) with a wildcard above it: the key arithmetic
		// of the sorted layout works on byte offsets into the reversed name
		if rng.Intn(4) == 0 {
			deep := z
			nl := 8 + rng.Intn(25)
			for d := 0; d < nl && len(deep) < 150; d++ {
				deep = join(SafeLabels[rng.Intn(len(SafeLabels))], deep)
				if d == nl/2 && rng.Intn(2) == 0 {
					b.txtLine(deep, true, locOf()) // wildcard half-way down
					addOwner(deep)
				}
			}
			if rng.Intn(2) == 0 {
				deep = join(strings.Repeat("l", 63), deep)
			}
			if rng.Intn(3) == 0 {
				// the longest names there are: 254 or 255 octets on the wire
				target := 252 + rng.Intn(2)
				for len(deep) < target {
					rem := target - len(deep) - 1
					l := rem
					if l > 63 {
						l = 63
						if rem-l == 1 {
							l = 62
						}
					}
					deep = join(strings.Repeat("m", l), deep)
				}
			}
			b.addrLine(deep, false, locOf(), b.randIP(), 0)
			if rng.Intn(2) == 0 {
				b.txtLine(deep, false, locOf())
			}
			addOwner(deep)
		}
		// answers that do not fit a 512-byte datagram: one record that is too big on its own (truncation leaves
		// nothing), and a set of 30 records (truncation leaves a part)
		if rng.Intn(3) == 0 {
			n := join("huge", z)
			b.txtWith(n, false, "", strings.Repeat("h", 600+rng.Intn(800)))
			addOwner(n)
		}
		if rng.Intn(3) == 0 {
			n := join("many", z)
			for i := 0; i < 30; i++ {
				b.txtWith(n, false, "", fmt.Sprintf("many-%02d-%s", i, strings.Repeat("m", 20)))
			}
			addOwner(n)
		}
		if rng.Intn(3) == 0 {
			n := join("trail", z)
			b.txtTrailing(n)
			addOwner(n)
		}
		// zone-wide wildcard at the apex
		if rng.Intn(3) == 0 {
			b.addrLine(z, true, locOf(), b.randIP(), 0)
			if rng.Intn(2) == 0 {
				b.txtLine(z, true, locOf())
			}
		}
		for _, n := range names {
			addOwner(n)
			wild := rng.Intn(6) == 0
			nl := 1 + rng.Intn(3)
			// CNAME-only name
			if rng.Intn(8) == 0 {
				b.simpleLine("C", TCNAME, n, wild, locOf(), "www."+zOr(z, "example.net"), NameWire("www."+zOr(z, "example.net")), "")
				continue
			}
			for j := 0; j < nl; j++ {
				loc := locOf()
				switch rng.Intn(13) {
				case 0, 1, 2:
					// address set with weights
					k := 1 + rng.Intn(4)
					for x := 0; x < k; x++ {
						b.addrLine(n, wild, loc, b.randIP(), rng.Intn(5))
					}
				case 3:
					b.paddrLine(n, wild, loc, b.randIP())
				case 4:
					x := []string{"mx1", "mail." + zOr(z, "example.net"), "mx.example.net"}[rng.Intn(3)]
					var ip net.IP
					if rng.Intn(2) == 0 {
						ip = b.randIP()
					}
					b.mxLine(n, loc, x, ip)
					addOwner(expand(x, "mx", n))
				case 5:
					x := []string{"s1", "srv." + zOr(z, "example.net")}[rng.Intn(2)]
					var ip net.IP
					if rng.Intn(2) == 0 {
						ip = b.randIP()
					}
					b.srvLine(n, loc, x, ip)
					addOwner(expand(x, "srv", n))
				case 6:
					b.txtLine(n, wild, loc)
				case 7:
					b.simpleLine("^", TPTR, n, false, loc, "host."+zOr(z, "example.net"), NameWire("host."+zOr(z, "example.net")), "")
				case 8:
					b.auxLine(n, loc)
				case 9:
					b.svcbLine(rng.Intn(2) == 0, n, wild, loc)
				case 10:
					b.simpleLine("C", TCNAME, n, wild, loc, "c.example.net", NameWire("c.example.net"), "")
				default:
					b.addrLine(n, wild, loc, b.randIP(), 0)
				}
			}
		}
		// delegations below this zone
		if z != "" || rng.Intn(2) == 0 {
			nd := rng.Intn(3)
			for i := 0; i < nd; i++ {
				child := join([]string{"child", "a", "www", "deleg"}[rng.Intn(4)], z)
				if ownerSet[child] && containsZone(zones, child) {
					continue
				}
				loc := ""
				if len(w.Locs) > 0 && rng.Intn(5) == 0 {
					loc = w.Locs[rng.Intn(len(w.Locs))]
				}
				glue := rng.Intn(4)
				switch glue {
				case 0: // below the cut
					b.nsLine(false, child, loc, "ns."+child, b.randIP())
					addOwner("ns." + child)
				case 1: // in the parent zone
					b.nsLine(false, child, loc, "nsd."+zOr(z, "example.net"), b.randIP())
					addOwner("nsd." + zOr(z, "example.net"))
				case 2: // out of zone, no address
					b.nsLine(false, child, loc, "ns.other.example", nil)
				default: // expanded name x.ns.child with several weighted addresses
					b.nsLine(false, child, loc, "a", b.randIP())
					b.addrLine("a.ns."+child, false, "", b.randIP(), 2)
					if len(w.Locs) > 0 {
						b.addrLine("a.ns."+child, false, w.Locs[0], b.randIP(), 0)
					}
					addOwner("a.ns." + child)
				}
				addOwner(child)
				// occluded data below the cut
				if rng.Intn(2) == 0 {
					b.addrLine(join("www", child), false, "", b.randIP(), 0)
					addOwner(join("www", child))
				}
				if rng.Intn(3) == 0 {
					b.addrLine(child, true, "", b.randIP(), 0) // wildcard below the cut
				}
			}
		}
	}
	finish(w)
	return w
}

func zOr(z, alt string) string {
	if z == "" {
		return alt
	}
	return z
}

func containsZone(zs []string, n string) bool {
	for _, z := range zs {
		if z == n {
			return true
		}
	}
	return false
}

func finish(w *World) {
	// shuffle-free: line order is generation order; owners sorted for reproducibility
	sort.Strings(w.Owners)
}

// genMaps declares subnets and name->map bindings so that every location has clients.
func genMaps(b *builder, o WorldOpts) {
	w, rng := b.w, b.rng
	if len(w.Locs) == 0 {
		if rng.Intn(3) == 0 { // subnets without any tagged record: locations exist but change nothing
			addSubnet(b, "\x00\x00", "zz", "10.9.0.0/16")
		}
		return
	}
	def := "\x00\x00"
	for i, l := range w.Locs {
		addSubnet(b, def, l, fmt.Sprintf("10.%d.0.0/16", i+1))
		if rng.Intn(2) == 0 {
			addSubnet(b, def, l, fmt.Sprintf("2001:db8:%d::/48", i+1))
		}
	}
	if rng.Intn(3) == 0 {
		addSubnet(b, def, w.Locs[0], "0.0.0.0/0")
	}
	if rng.Intn(4) == 0 {
		addSubnet(b, def, w.Locs[len(w.Locs)-1], "::/0")
	}
	// a second resolver map with the assignment rotated, bound to some names
	if rng.Intn(2) == 0 {
		for i, l := range w.Locs {
			addSubnet(b, "Ma", l, fmt.Sprintf("10.%d.0.0/16", (i+1)%len(w.Locs)+1))
			addSubnet(b, "Ma", l, fmt.Sprintf("10.%d.128.0/17", i+1))
		}
		for _, bind := range pick(rng, []string{"*.example.com", "www.example.com", "*.sub.example.com", "*.", "*.com", "example.org", "*.a.example.com"}, 1+rng.Intn(2)) {
			w.Maps.Resolver[bind] = "Ma"
			b.add(fmt.Sprintf("M%s,%s", randCase(rng, bind), OctalAll("Ma")))
		}
	}
	// names bound to a map that declares no subnet at all (such a client has no location; nothing another map
	// declares may give it one)
	if rng.Intn(2) == 0 {
		for _, bind := range pick(rng, []string{"*.b.example.com", "example.org", "*.org", "www.example.com", "*.net", "ab.example.com", "*.example.com", "*.com"}, 2+rng.Intn(2)) {
			if _, dup := w.Maps.Resolver[strings.ToLower(bind)]; dup {
				continue
			}
			w.Maps.Resolver[bind] = "zy"
			b.add(fmt.Sprintf("M%s,%s", randCase(rng, bind), OctalAll("zy")))
		}
	}
	// an ECS map
	if rng.Intn(2) == 0 || o.ForceECS {
		for i, l := range w.Locs {
			addSubnet(b, "ec", l, fmt.Sprintf("198.51.%d.0/24", i+1))
			if rng.Intn(2) == 0 {
				addSubnet(b, "ec", l, fmt.Sprintf("2001:db8:e%d::/48", i+1))
			}
			if rng.Intn(3) == 0 {
				addSubnet(b, "ec", l, fmt.Sprintf("198.51.%d.128/25", (i+1)%len(w.Locs)+1))
			}
			if rng.Intn(2) == 0 { // a longer prefix with the same start and the same location
				addSubnet(b, "ec", l, fmt.Sprintf("198.51.%d.0/26", i+1))
			}
		}
		if len(w.Locs) >= 2 && rng.Intn(2) == 0 {
			// an enclosing prefix whose location equals that of one of the /24s inside it (which follows a sibling of
			// another location)
			addSubnet(b, "ec", w.Locs[1], "198.51.0.0/16")
		}
		// default subnets in the client-subnet map: a match of length 0 is a match (scope 0, that location)
		if rng.Intn(3) == 0 {
			addSubnet(b, "ec", w.Locs[0], "::/0")
		}
		if rng.Intn(4) == 0 {
			addSubnet(b, "ec", w.Locs[len(w.Locs)-1], "0.0.0.0/0")
		}
		for _, bind := range pick(rng, []string{"*.example.com", "example.com", "*.", "*.org", "*.www.example.com", "a.example.com"}, 1+rng.Intn(3)) {
			w.Maps.ECS[bind] = "ec"
			b.add(fmt.Sprintf("8%s,%s", randCase(rng, bind), OctalAll("ec")))
		}
		if rng.Intn(3) == 0 { // and a client-subnet binding to a map without subnets
			if _, dup := w.Maps.ECS["*.sub.example.com"]; !dup {
				w.Maps.ECS["*.sub.example.com"] = "zy"
				b.add("8*.sub.example.com," + OctalAll("zy"))
			}
		}
	}
}

func pick(rng *rand.Rand, from []string, n int) []string {
	p := rng.Perm(len(from))
	var out []string
	for i := 0; i < n && i < len(p); i++ {
		out = append(out, from[p[i]])
	}
	return out
}

func addSubnet(b *builder, mapID, loc, cidr string) {
	_, n, err := net.ParseCIDR(cidr)
	if err != nil {
		panic(err)
	}
	var s model.Subnet
	ones, bits := n.Mask.Size()
	copy(s.IP[:], n.IP.To16())
	s.V4 = bits == 32
	s.Len = ones
	if s.V4 {
		s.Len += 96
	}
	copy(s.Loc[:], loc)
	for _, e := range b.w.Maps.Subnets[mapID] {
		if e.IP == s.IP && e.Len == s.Len {
			return // never declare one subnet twice with different locations
		}
	}
	b.w.Maps.Subnets[mapID] = append(b.w.Maps.Subnets[mapID], s)
	mid := OctalAll(mapID)
	if mapID == "\x00\x00" && b.rng.Intn(2) == 0 {
		mid = ""
	}
	f := []string{b.locField(loc), cidr, mid}
	if mid == "" {
		f = f[:2]
	}
	b.add("%" + strings.Join(f, ","))
}

// Client is a query source.
type Client struct {
	IP  string // resolver address
	ECS string // "" or CIDR
}

// Clients returns clients covering every location (through each map), unmatched addresses and ECS variants.
func (w *World) Clients(rng *rand.Rand) []Client {
	cs := []Client{{IP: "203.0.113.9"}, {IP: "2001:db8:ffff::9"}}
	for i := range w.Locs {
		cs = append(cs, Client{IP: fmt.Sprintf("10.%d.0.5", i+1)})
		cs = append(cs, Client{IP: fmt.Sprintf("10.%d.200.5", i+1)})
		if rng.Intn(2) == 0 {
			cs = append(cs, Client{IP: fmt.Sprintf("2001:db8:%d::5", i+1)})
		}
	}
	if len(w.Maps.ECS) > 0 {
		for i := range w.Locs {
			cs = append(cs, Client{IP: "203.0.113.9", ECS: fmt.Sprintf("198.51.%d.0/24", i+1)})
			cs = append(cs, Client{IP: fmt.Sprintf("10.%d.0.5", (i+1)%len(w.Locs)+1), ECS: fmt.Sprintf("198.51.%d.128/25", i+1)})
			cs = append(cs, Client{IP: "10.1.0.5", ECS: fmt.Sprintf("198.51.%d.0/%d", i+1, 16+rng.Intn(17))})
			if rng.Intn(2) == 0 {
				cs = append(cs, Client{IP: "203.0.113.9", ECS: fmt.Sprintf("2001:db8:e%d::/%d", i+1, []int{32, 48, 56, 64, 128}[rng.Intn(5)])})
			}
		}
		cs = append(cs, Client{IP: "10.1.0.5", ECS: "192.0.2.0/24"}, Client{IP: "203.0.113.9", ECS: "0.0.0.0/0"})
	}
	return cs
}

// Query is one generated question.
type Query struct {
	Name string // canonical lower-case
	Type uint16
}

// Queries derives the hostile query set of a world.
func (w *World) Queries(rng *rand.Rand, max int) []Query {
	nameSet := map[string]bool{}
	var names []string
	add := func(n string) {
		if len(n)+2 > 255 { // wire length = presentation length + 2 for our dot-free labels
			return
		}
		for _, l := range strings.Split(n, ".") {
			if len(l) > 63 {
				return
			}
		}
		if !nameSet[n] {
			nameSet[n] = true
			names = append(names, n)
		}
	}
	for _, o := range w.Owners {
		add(o)
		for p, ok := Parent(o); ok; p, ok = Parent(p) {
			add(p)
		}
		for _, l := range pick(rng, Labels, 3) {
			add(join(l, o))
		}
		add(join("b", join("a", o)))
		add(join("x", join("a*b", o)))
		add(join("zz", join("\xc3\xa9", o)))
		// labels whose only wildcard-unsafe byte is the last one, and one-byte unsafe labels (also the literal "*")
		add(join("bad!", o))
		add(join("q", join("x!", o)))
		add(join("!", o))
		add(join("*", o))
		add(join("a", join("*", o)))
	}
	for _, z := range w.Zones {
		add(join("nx", z))
		add(join("a", join("nx", z)))
	}
	add("example.net")
	add("www.example.net")
	add("org")
	add("")
	add("zz.nowhere")
	typesSeen := map[uint16]bool{}
	for _, r := range w.Recs {
		typesSeen[r.Type] = true
	}
	std := []uint16{TA, TAAAA, TNS, TSOA, TMX, TTXT, TCNAME, TSRV, TPTR, TSVCB, THTTPS, 99, 43} // 43 = DS: answered from the parent side of a delegation
	var qs []Query
	for _, n := range names {
		ts := append([]uint16{}, std[:2]...)
		for _, t := range pick3(rng, std[2:]) {
			ts = append(ts, t)
		}
		for t := range typesSeen {
			if rng.Intn(3) == 0 {
				ts = append(ts, t)
			}
		}
		seen := map[uint16]bool{}
		for _, t := range ts {
			if !seen[t] {
				seen[t] = true
				qs = append(qs, Query{Name: n, Type: t})
			}
		}
	}
	// make sure every declared (owner,type) is asked for
	for _, r := range w.Recs {
		if !r.Wild {
			qs = append(qs, Query{Name: r.Owner, Type: r.Type})
		} else {
			qs = append(qs, Query{Name: join("a", r.Owner), Type: r.Type}, Query{Name: join("a*b", r.Owner), Type: r.Type})
		}
	}
	if max > 0 && len(qs) > max {
		rng.Shuffle(len(qs), func(i, j int) { qs[i], qs[j] = qs[j], qs[i] })
		qs = qs[:max]
	}
	return qs
}

func pick3(rng *rand.Rand, from []uint16) []uint16 {
	p := rng.Perm(len(from))
	return []uint16{from[p[0]], from[p[1]], from[p[2]]}
}

// ForeignLines produces lines whose records are all tagged with location loc,
// placed right next to the existing data (same owners, children, apexes,
// wildcards, delegations, glue), plus subnets of a map no name is bound to.
func ForeignLines(rng *rand.Rand, w *World, loc string) []Line {
	tmp := &World{Maps: model.NewMaps()}
	b := &builder{rng: rng, w: tmp}
	n := 3 + rng.Intn(10)
	var targets []string
	for _, r := range w.Recs {
		if r.Target != "" {
			targets = append(targets, r.Target)
		}
	}
	for i := 0; i < n; i++ {
		owner := w.Owners[rng.Intn(len(w.Owners))]
		zone := w.Zones[rng.Intn(len(w.Zones))]
		switch rng.Intn(10) {
		case 0: // at an existing name
			b.addrLine(owner, false, loc, b.randIP(), 0)
		case 1: // other type at an existing name
			b.txtLine(owner, false, loc)
		case 2: // a new name below an existing one
			b.addrLine(join(Labels[rng.Intn(len(Labels))], owner), false, loc, b.randIP(), 0)
		case 3: // apex SOA+NS
			b.nsLine(true, zone, loc, "foreign-ns."+zOr(zone, "example.net"), b.randIP())
		case 4: // wildcard at an existing name / apex
			if rng.Intn(2) == 0 {
				b.addrLine(owner, true, loc, b.randIP(), 0)
			} else {
				b.txtLine(zone, true, loc)
			}
		case 5: // a new delegation
			child := join([]string{"fdeleg", "a", "www"}[rng.Intn(3)], zone)
			b.nsLine(false, child, loc, "ns."+child, b.randIP())
		case 6: // delegation exactly at an existing name
			b.nsLine(false, owner, loc, "nsf.example.net", b.randIP())
		case 7: // glue of an existing NS/MX target
			if len(targets) > 0 {
				b.addrLine(targets[rng.Intn(len(targets))], false, loc, b.randIP(), 2)
			}
		case 8: // CNAME at an existing name
			b.simpleLine("C", TCNAME, owner, false, loc, "foreign.example.net", NameWire("foreign.example.net"), "")
		default: // SOA only (Z line) at a name inside the zone
			b.soaLine(join("fz", zone), loc)
		}
	}
	// subnets of a map that is bound to no name: new prefix lengths for CDB's global set
	for _, cidr := range pick(rng, []string{"172.16.0.0/13", "100.64.0.0/10", "2001:db8:aaaa::/77", "198.18.0.0/15", "fc00::/7", "10.1.0.0/17", "198.51.1.0/26", "::/0", "ff00::/8", "0.0.0.0/0", "255.0.0.0/8"}, 1+rng.Intn(4)) {
		// each subnet once: one subnet is never declared twice with different locations
		l := []string{loc, "aa", "bb", "zz"}[rng.Intn(4)]
		b.add(fmt.Sprintf("%%%s,%s,%s", OctalAll(l), cidr, OctalAll("zx")))
	}
	// and always one that reaches the top of the address space (its last range point has no successor inside the map)
	b.add(fmt.Sprintf("%%%s,%s,%s", OctalAll(loc), "ff80::/9", OctalAll("zx")))
	return tmp.Lines
}
