package checks

import (
	"encoding/json"
	"fmt"
	"math/rand"
	"net"
	"strings"

	"github.com/miekg/dns"

	"verif/internal/gen"
	"verif/internal/harness"
	"verif/internal/model"
	"verif/internal/report"
)

func init() {
	register("C10", "exploration", runC10, replayC10)
}

type c10Case struct {
	WorldSeed int64    `json:"world_seed"`
	Backend   string   `json:"backend"`
	Separate  bool     `json:"cdb_separate_prefix_sets"`
	Query     c02Query `json:"query"`
	CanonName string   `json:"canonical_name"`
	// Before: queries for the same name and type sent just before Query to a cache-enabled server
	Before []c02Query `json:"asked_before,omitempty"`
}

// c10Configs: the four storage configurations plus two with the response cache on (a cached response must be
// dressed with the OPT/client-subnet of the query at hand, not of the query that populated the entry)
var c10Configs = append(append([]c02Config{}, c02Configs[:4]...),
	c02Config{Name: "cdb-combined-cache", B: harness.Backends[0], Workers: 2, Cache: true},
	c02Config{Name: "rdb2-builder-cache", B: harness.Backends[2], RDB: harness.RDBOpts{V2: true, Builder: true, NumCPU: 2}, Cache: true})

// c10Variants: follow-up queries for the same question (likely cache hits) with other EDNS/client-subnet contents.
func c10Variants(q c02Query, rng *rand.Rand) []c02Query {
	var out []c02Query
	a := q
	a.EDNS, a.HasECS, a.Cookie, a.DO, a.Size, a.ECSIP = false, false, false, false, 0, nil
	out = append(out, a)
	b := q
	b.EDNS, b.HasECS, b.ECSIP, b.Size = true, false, nil, 1232
	out = append(out, b)
	if q.HasECS && len(q.ECSIP) > 0 {
		c := q
		c.ECSIP = append([]byte{}, q.ECSIP...)
		if c.ECSSrc >= 8 { // another address, mostly inside the same declared subnet
			c.ECSIP[(c.ECSSrc-1)/8] ^= 1 << (7 - (c.ECSSrc-1)%8)
		}
		out = append(out, c)
		if c.ECSSrc > 1 {
			d := q
			d.ECSSrc--
			d.ECSIP = net.IP(q.ECSIP).Mask(net.CIDRMask(int(d.ECSSrc), 8*len(q.ECSIP)))
			out = append(out, d)
		}
	}
	rng.Shuffle(len(out), func(i, j int) { out[i], out[j] = out[j], out[i] })
	return out
}

func c10World(seed int64) *gen.World {
	return gen.GenWorld(rand.New(rand.NewSource(seed)), gen.WorldOpts{Layout: -1, ForceECS: true})
}

// c10Expect computes the prescribed OPT/ECS echo for a query.
func c10Expect(w *gen.World, canon string, q c02Query) (hasOPT, hasECS bool, scope int, loc string) {
	hasOPT = q.EDNS
	hasECS = q.EDNS && q.HasECS
	var ipr [16]byte
	copy(ipr[:], net.ParseIP(q.IP).To16())
	loc, _ = w.Maps.ResolverLoc(canon, ipr)
	if hasECS {
		var ip [16]byte
		plen := int(q.ECSSrc)
		if q.ECSFam == 1 {
			copy(ip[:], net.IP(q.ECSIP).Mask(net.CIDRMask(plen, 32)).To16())
			plen += 96
		} else {
			copy(ip[:], net.IP(q.ECSIP).Mask(net.CIDRMask(plen, 128)))
		}
		l, matchedLen, hasMap, matched := w.Maps.ECSLoc(canon, ip, plen)
		switch {
		case !hasMap:
			scope = 0
		case !matched:
			scope = 24
			if q.ECSFam == 2 {
				scope = 48
			}
		default:
			scope = matchedLen
			if q.ECSFam == 1 {
				scope -= 96
			}
			loc = l
		}
	}
	return
}

func c10Check(w *gen.World, ix *model.Index, sv *harness.Server, canon string, q c02Query, maxAns int) (string, string) {
	hasOPT, hasECS, scope, loc := c10Expect(w, canon, q)
	res := sv.Serve(q.Msg(), harness.NewWriter(q.IP, q.TCP), maxAns)
	if res.Panic != "" {
		return "handler panicked: " + res.Panic, loc
	}
	if res.Msg == nil {
		return fmt.Sprintf("no reply (rcode %d, err %v)", res.Rcode, res.Err), loc
	}
	// unpack what went on the wire: that is what the client sees
	back := new(dns.Msg)
	if err := back.Unpack(res.Wire); err != nil {
		return "reply does not unpack: " + err.Error(), loc
	}
	c := harness.CanonMsg(back)
	nopt := 0
	for _, rr := range back.Extra {
		if _, ok := rr.(*dns.OPT); ok {
			nopt++
		}
	}
	if hasOPT != c.HasOPT || nopt > 1 {
		return fmt.Sprintf("reply has %d OPT records, query had OPT=%v (rcode %d)", nopt, hasOPT, c.Rcode), loc
	}
	if hasECS != c.HasECS {
		return fmt.Sprintf("reply carries client-subnet option=%v, query carried one=%v (rcode %d)", c.HasECS, hasECS, c.Rcode), loc
	}
	if hasECS {
		// (the DNS library zeroes the bits beyond the source length of every option it packs: the address is compared masked)
		want := fmt.Sprintf("fam=%d src=%d addr=%s", q.ECSFam, q.ECSSrc, net.IP(q.ECSIP).Mask(net.CIDRMask(int(q.ECSSrc), 8*len(q.ECSIP))))
		if c.ECS != want {
			return fmt.Sprintf("client-subnet echoed as {%s}, sent {%s}", c.ECS, want), loc
		}
		if c.ECSScope != scope {
			return fmt.Sprintf("scope %d, prescribed %d (source %d, family %d)", c.ECSScope, scope, q.ECSSrc, q.ECSFam), loc
		}
		max := 32
		if q.ECSFam == 2 {
			max = 128
		}
		if c.ECSScope > max {
			return fmt.Sprintf("scope %d exceeds %d", c.ECSScope, max), loc
		}
	}
	// the records served are those of the location the subnet (else the resolver) selects
	if q.Class == dns.ClassINET && q.Type != dns.TypeDS && q.Type != dns.TypeANY {
		exp := ix.Resolve(canon, q.Type, loc)
		if m := c01Compare(ix, exp, back, canon, loc); m != "" {
			return "records do not belong to the location the client subnet/resolver selects: " + m, loc
		}
	}
	return "", loc
}

func c10Queries(w *gen.World, rng *rand.Rand, n int) ([]c02Query, []string) {
	base := w.Queries(rng, n)
	var qs []c02Query
	var canon []string
	nl := len(w.Locs)
	if nl == 0 {
		nl = 1
	}
	for _, b := range base {
		q := c02Query{Name: gen.Presentation(b.Name), Type: b.Type, Class: dns.ClassINET, IP: []string{"203.0.113.9", "10.1.0.5", "10.2.0.5", "2001:db8:1::5"}[rng.Intn(4)]}
		switch rng.Intn(8) {
		case 0: // no EDNS at all
		case 1: // EDNS without ECS
			q.EDNS = true
		default:
			q.EDNS, q.HasECS = true, true
			i := 1 + rng.Intn(nl)
			if rng.Intn(3) != 0 { // IPv4
				q.ECSFam = 1
				ip := net.IPv4(198, 51, byte(i), byte(rng.Intn(256))).To4()
				if rng.Intn(5) == 0 {
					ip = net.IPv4(byte(rng.Intn(256)), byte(rng.Intn(256)), byte(rng.Intn(256)), byte(rng.Intn(256))).To4()
				}
				q.ECSSrc = uint8([]int{0, 1, 8, 16, 20, 23, 24, 25, 26, 31, 32, rng.Intn(33)}[rng.Intn(12)])
				q.ECSIP = ip.Mask(net.CIDRMask(int(q.ECSSrc), 32))
			} else {
				q.ECSFam = 2
				ip := net.ParseIP(fmt.Sprintf("2001:db8:e%d::%x", i, rng.Intn(65536)))
				if rng.Intn(5) == 0 {
					ip = make(net.IP, 16)
					rng.Read(ip)
				}
				q.ECSSrc = uint8([]int{0, 1, 32, 47, 48, 49, 56, 64, 96, 127, 128, rng.Intn(129)}[rng.Intn(12)])
				if rng.Intn(5) == 0 {
					// an IPv6-family option carrying an IPv4-mapped address (what a dual-stack forwarder may send)
					ip = net.IPv4(198, 51, byte(i), byte(rng.Intn(256))).To16()
					q.ECSSrc = uint8(96 + []int{0, 8, 16, 23, 24, 25, 31, 32}[rng.Intn(8)])
				}
				q.ECSIP = ip.Mask(net.CIDRMask(int(q.ECSSrc), 128))
			}
		}
		if q.HasECS && q.ECSSrc%8 != 0 && rng.Intn(5) == 0 {
			// bits set beyond the source length inside the last transmitted octet (they survive the wire; the client's
			// prefix is still the first ECSSrc bits)
			q.ECSIP = append([]byte{}, q.ECSIP...)
			q.ECSIP[q.ECSSrc/8] |= byte(1+rng.Intn(255)) & (0xff >> (q.ECSSrc % 8))
		}
		if q.EDNS {
			q.Cookie = rng.Intn(4) == 0
			q.DO = rng.Intn(4) == 0
			q.Size = []uint16{0, 512, 1232, 4096}[rng.Intn(4)]
		}
		qs = append(qs, q)
		canon = append(canon, b.Name)
	}
	return qs, canon
}

func runC10(r *report.Run) {
	r.SetRule("generated files that always declare locations and a client-subnet map (bound to exact and wildcard names, root wildcard) x queries for names with and without such a map, without EDNS, with EDNS only, and with ECS of family 1/2 at source lengths around and across the declared subnet lengths (0,1,8,...,32 / 0,...,128; one in five of the non-octet source lengths with bits set beyond the source length), plus cookie/DO/size variation, on CDB (combined and per-family prefix sets), RocksDB v1 and v2; the reply read back from its wire form must carry OPT iff the query did, ECS iff the query did with family/source/address unchanged, the prescribed scope (matched declared length, 24/48 default, 0 without map) and the records of the location selected by the subnet, else by the resolver. non-trivial = query carrying ECS for a name that has a client-subnet map; distinct by (file, query); two further servers run with the response cache on and get follow-up queries for the same question with no EDNS / EDNS only / another address / a shorter source length (counted: follow-ups really answered from the cache)")
	r.Assume("EDNS version 0 only; ECS addresses have zero host bits and family-sized addresses (other shapes are C13's)")
	nfiles := r.Pick(30, 1200)
	for i := 0; i < nfiles; i++ {
		seed := r.Seed*5000011 + int64(i)
		w := c10World(seed)
		rng := rand.New(rand.NewSource(seed ^ 0x77777))
		ix := model.NewIndex(w.Recs)
		opened, cleanup, err := c02Open(w.Text(), c10Configs)
		r.Eval(1)
		if err != nil {
			r.Violation("", "well-formed file rejected: "+err.Error(), c10Case{WorldSeed: seed})
			continue
		}
		qs, canon := c10Queries(w, rng, r.Pick(250, 400))
		maxAns := ix.MaxCandidates() + 1
		for j, q := range qs {
			_, hasMap := model.MapFor(w.Maps.ECS, canon[j])
			for _, o := range opened {
				setSeparate(o.cfg.Separate)
				msg, loc := c10Check(w, ix, o.srv, canon[j], q, maxAns)
				setSeparate(false)
				r.Count("replies", 1)
				_, _, scope, _ := c10Expect(w, canon[j], q)
				if q.HasECS {
					r.Count(fmt.Sprintf("prescribed_scope_%d", scope), 1)
					if !net.IP(q.ECSIP).Equal(net.IP(q.ECSIP).Mask(net.CIDRMask(int(q.ECSSrc), 8*len(q.ECSIP)))) {
						r.Count("client_subnets_with_bits_beyond_the_source_length", 1)
					}
					if hasMap {
						r.Nontrivial(fmt.Sprintf("%d|%+v", seed, q))
					}
				}
				if loc != "" {
					r.Count("located_replies", 1)
				}
				if msg != "" {
					r.Violation("", fmt.Sprintf("%s: %+v: %s", o.cfg.Name, q, msg), c10Case{WorldSeed: seed, Backend: o.cfg.Name, Separate: o.cfg.Separate, Query: q, CanonName: canon[j]})
					break
				}
				if o.cfg.Cache && j%2 == 0 {
					before := []c02Query{q}
					for _, v := range c10Variants(q, rng) {
						hitsBefore := o.srv.Stats.Snapshot()["DNS_cache.hit"]
						vmsg, _ := c10Check(w, ix, o.srv, canon[j], v, maxAns)
						r.Count("replies", 1)
						r.Count("follow_up_queries_on_cache_enabled_servers", 1)
						if o.srv.Stats.Snapshot()["DNS_cache.hit"] > hitsBefore {
							r.Count("follow_up_queries_answered_from_the_cache", 1)
						}
						if vmsg != "" {
							r.Violation("", fmt.Sprintf("%s: %+v (asked after %d queries for the same question): %s", o.cfg.Name, v, len(before), vmsg), c10Case{WorldSeed: seed, Backend: o.cfg.Name, Query: v, CanonName: canon[j], Before: before})
							break
						}
						before = append(before, v)
					}
				}
			}
		}
		if i == 0 && len(qs) > 0 {
			for _, q := range qs {
				if q.HasECS && r.SampleN() < 4 {
					r.Sample(q)
				}
			}
			r.Sample(map[string]interface{}{"ecs_bindings": w.Maps.ECS, "file_head": strings.Split(string(w.Text()), "\n")[:8]})
		}
		cleanup()
		if r.Violations() >= 12 {
			break
		}
	}
}

func replayC10(r *report.Run, raw json.RawMessage) {
	var c c10Case
	if err := json.Unmarshal(raw, &c); err != nil {
		r.Inconclusive(err.Error())
		return
	}
	w := c10World(c.WorldSeed)
	ix := model.NewIndex(w.Recs)
	opened, cleanup, err := c02Open(w.Text(), c10Configs)
	if err != nil {
		r.Violation("", err.Error(), c)
		return
	}
	defer cleanup()
	for _, o := range opened {
		if o.cfg.Name != c.Backend {
			continue
		}
		setSeparate(o.cfg.Separate)
		for _, b := range c.Before {
			o.srv.Serve(b.Msg(), harness.NewWriter(b.IP, b.TCP), ix.MaxCandidates()+1)
		}
		msg, _ := c10Check(w, ix, o.srv, c.CanonName, c.Query, ix.MaxCandidates()+1)
		setSeparate(false)
		fmt.Println(o.cfg.Name+":", msg)
		if msg != "" {
			r.Violation("", msg, c)
		}
	}
}
