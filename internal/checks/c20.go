package checks

import (
	"encoding/json"
	"errors"
	"fmt"
	"math/rand"
	"net"
	"sort"
	"strings"
	"sync"
	"time"

	"github.com/facebookincubator/dns/dnsrocks/dnsserver"
	"github.com/facebookincubator/dns/dnsrocks/fbserver"
	"github.com/facebookincubator/dns/dnsrocks/metrics"
	"github.com/miekg/dns"

	"verif/internal/gen"
	"verif/internal/harness"
	"verif/internal/report"
)

func init() {
	register("C20", "exploration", runC20, replayC20)
	Workers["c20"] = c20Worker
}

type c20Config struct {
	Backend   string `json:"backend"`
	Whoami    bool   `json:"whoami_domain_set"`
	RefuseANY bool   `json:"refuse_any"`
	MaxAns    int    `json:"max_answer"`
	IP        string `json:"listen_ip"`
	IP2       string `json:"second_listen_ip,omitempty"` // a second address with its own max-answer
	MaxAns2   int    `json:"second_max_answer,omitempty"`
	Cache     bool   `json:"response_cache,omitempty"` // the server runs with the response cache on (the reference handler never does)
}

type c20Exporter struct{}

func (c20Exporter) ConsumeStats(category string, stats *metrics.Stats) error { return nil }

// the whoami domain has names below it in the database: only the domain itself belongs to the whoami handler
const c20WhoamiDomain = "whoami.example.com."

// freePort finds a port that is free for UDP and TCP on ip.
func freePort(ip string) int {
	for i := 0; i < 50; i++ {
		l, err := net.Listen("tcp", net.JoinHostPort(ip, "0"))
		if err != nil {
			continue
		}
		port := l.Addr().(*net.TCPAddr).Port
		l.Close()
		pc, err := net.ListenPacket("udp", net.JoinHostPort(ip, fmt.Sprint(port)))
		if err != nil {
			continue
		}
		pc.Close()
		return port
	}
	return 0
}

// c20Canon renders a reply for the transport/in-process comparison: address records are
// reduced to owner+type (the weighted choice is random), everything else is exact.
func c20Canon(m *dns.Msg) string {
	if m == nil {
		return "NO-REPLY"
	}
	c := harness.CanonMsg(m)
	strip := func(rrs []dns.RR) []string {
		var out []string
		for _, rr := range rrs {
			if _, ok := rr.(*dns.OPT); ok {
				continue
			}
			cr := harness.CanonOf(rr)
			if cr.Type == dns.TypeA || cr.Type == dns.TypeAAAA {
				out = append(out, fmt.Sprintf("%s addr-type=%d", cr.Owner, cr.Type))
			} else {
				out = append(out, cr.String())
			}
		}
		sort.Strings(out)
		return out
	}
	return fmt.Sprintf("rcode=%d aa=%v tc=%v\nAN %v\nNS %v\nAR %v\nOPT %v %s ECS %v %s scope=%d", c.Rcode, c.AA, c.TC, strip(m.Answer), strip(m.Ns), strip(m.Extra), c.HasOPT, c.OPT, c.HasECS, c.ECS, c.ECSScope)
}

type c20Summary struct {
	Exchanges  int
	Counts     map[string]int64
	Violations []string
	Samples    []string
}

func c20BigLines() []string {
	var l []string
	for i := 0; i < 40; i++ {
		l = append(l, fmt.Sprintf("'big.example.com,%s-%02d,300", strings.Repeat("t", 40), i))
		l = append(l, fmt.Sprintf("&manyns.example.com,192.0.2.%d,ns%02d.manyns.example.com,300", 10+i, i))
	}
	l = append(l, "+single.example.com,192.0.2.7,300")
	// a name whose answer depends on the client's address: clients at 127.0.0.2 are in location "lo" of map "vw"
	l = append(l, "Mview.example.com,\\166\\167", "%\\154\\157,127.0.0.2/32,\\166\\167", "+view.example.com,192.0.2.200,300,,\\154\\157", "+view.example.com,192.0.2.201,300", "'view.example.com,for everybody,300", "'view.example.com,for lo,300,,\\154\\157")
	l = append(l, "+a.whoami.example.com,192.0.2.77,300", "'a.whoami.example.com,below the whoami domain,300", "+b.a.whoami.example.com,192.0.2.78,300", "+xwhoami.example.com,192.0.2.79,300")
	for i := 0; i < 6; i++ {
		l = append(l, fmt.Sprintf("+wrr.example.com,192.0.2.%d,300", 100+i), fmt.Sprintf("+wrr.example.com,2001:db8::%d,300", 100+i))
	}
	return l
}

// c20ExchangeRaw sends raw bytes as one DNS message and returns the reply.
func c20ExchangeRaw(addr string, tcp bool, wire []byte) (m *dns.Msg, err error) {
	for attempt := 0; attempt < 3; attempt++ {
		m, err = c20ExchangeRawOnce(addr, tcp, wire)
		var ne net.Error
		if err == nil || !errors.As(err, &ne) || !ne.Timeout() {
			return
		}
	}
	return
}

func c20ExchangeRawOnce(addr string, tcp bool, wire []byte) (*dns.Msg, error) {
	netw := "udp"
	if tcp {
		netw = "tcp"
	}
	c := &dns.Client{Net: netw, Timeout: 10 * time.Second}
	conn, err := c.Dial(addr)
	if err != nil {
		return nil, err
	}
	defer conn.Close()
	conn.SetDeadline(time.Now().Add(10 * time.Second))
	conn.UDPSize = 65535
	if _, err := conn.Write(wire); err != nil {
		return nil, err
	}
	hdr := new(dns.Header)
	p, err := conn.ReadMsgHeader(hdr)
	if err != nil {
		return nil, err
	}
	m := new(dns.Msg)
	if err := m.Unpack(p); err != nil {
		return nil, fmt.Errorf("reply does not unpack: %w", err)
	}
	return m, nil
}

// c20Exchange sends q over the given transport and returns the reply plus the wire length.
// c20Exchange sends q and waits for the reply; a timeout is retried twice (a datagram lost on a loaded machine is
// not the server refusing to answer; three silent attempts in a row are reported by the caller).
func c20Exchange(addr string, tcp bool, q *dns.Msg) (m *dns.Msg, n int, err error) {
	for attempt := 0; attempt < 3; attempt++ {
		m, n, err = c20ExchangeOnce(addr, tcp, q)
		var ne net.Error
		if err == nil || !errors.As(err, &ne) || !ne.Timeout() {
			return
		}
	}
	return
}

// c20ExchangeFrom is c20Exchange with the client bound to the given local address.
func c20ExchangeFrom(addr string, tcp bool, q *dns.Msg, local string) (m *dns.Msg, n int, err error) {
	for attempt := 0; attempt < 3; attempt++ {
		m, n, err = c20ExchangeOnceFrom(addr, tcp, q, local)
		var ne net.Error
		if err == nil || !errors.As(err, &ne) || !ne.Timeout() {
			return
		}
	}
	return
}

func c20ExchangeOnce(addr string, tcp bool, q *dns.Msg) (*dns.Msg, int, error) {
	return c20ExchangeOnceFrom(addr, tcp, q, "")
}

func c20ExchangeOnceFrom(addr string, tcp bool, q *dns.Msg, local string) (*dns.Msg, int, error) {
	netw := "udp"
	if tcp {
		netw = "tcp"
	}
	c := &dns.Client{Net: netw, Timeout: 10 * time.Second}
	if local != "" {
		if tcp {
			c.Dialer = &net.Dialer{LocalAddr: &net.TCPAddr{IP: net.ParseIP(local)}, Timeout: 10 * time.Second}
		} else {
			c.Dialer = &net.Dialer{LocalAddr: &net.UDPAddr{IP: net.ParseIP(local)}, Timeout: 10 * time.Second}
		}
	}
	conn, err := c.Dial(addr)
	if err != nil {
		return nil, 0, err
	}
	defer conn.Close()
	conn.SetDeadline(time.Now().Add(10 * time.Second))
	conn.UDPSize = 65535
	if err := conn.WriteMsg(q); err != nil {
		return nil, 0, err
	}
	hdr := new(dns.Header)
	p, err := conn.ReadMsgHeader(hdr)
	if err != nil {
		return nil, 0, err
	}
	m := new(dns.Msg)
	if err := m.Unpack(p); err != nil {
		return nil, len(p), fmt.Errorf("reply does not unpack: %w", err)
	}
	return m, len(p), nil
}

func c20Worker(args []string) int {
	var cfg c20Config
	json.Unmarshal([]byte(args[0]), &cfg)
	var seed int64 = 1
	nq := 300
	fmt.Sscan(args[1], &seed)
	fmt.Sscan(args[2], &nq)
	sum := c20Summary{Counts: map[string]int64{}}
	fail := func(format string, a ...interface{}) {
		if len(sum.Violations) < 12 {
			sum.Violations = append(sum.Violations, fmt.Sprintf(format, a...))
		}
	}
	var b harness.Backend
	for _, x := range harness.Backends {
		if x.Name == cfg.Backend {
			b = x
		}
	}
	rng := rand.New(rand.NewSource(seed))
	var w *gen.World
	for {
		w = gen.GenWorld(rng, gen.WorldOpts{Layout: rng.Intn(4)})
		if len(w.Zones) > 0 {
			break
		}
	}
	text := append(w.Text(), []byte(strings.Join(c20BigLines(), "\n")+"\n")...)
	path, err := harness.Compile(text, b)
	if err != nil {
		fmt.Println("compile:", err)
		return 2
	}
	defer harness.Remove(path)
	ref, err := harness.OpenServer(path, b, harness.ServerOpts{})
	if err != nil {
		fmt.Println("open:", err)
		return 2
	}
	defer ref.Close()
	// the real server
	var srv *fbserver.Server
	var addr string
	for attempt := 0; attempt < 5 && srv == nil; attempt++ {
		port := freePort(cfg.IP)
		conf := fbserver.NewServerConfig()
		conf.IPAns[cfg.IP] = cfg.MaxAns
		if cfg.IP2 != "" {
			conf.IPAns[cfg.IP2] = cfg.MaxAns2
		}
		conf.Port = port
		conf.TCP = true
		conf.DBConfig.Driver = b.Driver
		conf.DBConfig.Path = path
		conf.DBConfig.ReloadTimeout = 10 * time.Second
		conf.RefuseANY = cfg.RefuseANY
		if cfg.Cache {
			conf.CacheConfig = dnsserver.CacheConfig{Enabled: true, LRUSize: 4096}
		}
		if cfg.Whoami {
			conf.WhoamiDomain = c20WhoamiDomain
		}
		s := fbserver.NewServer(conf, &harness.Logger{}, harness.NewStats(), c20Exporter{})
		up := make(chan struct{}, 8)
		s.NotifyStartedFunc = func() { up <- struct{}{} }
		if err := s.Start(); err != nil {
			s.Shutdown()
			continue
		}
		ok := true
		nlisten := 2
		if cfg.IP2 != "" {
			nlisten = 4
		}
		for i := 0; i < nlisten; i++ {
			select {
			case <-up:
			case <-time.After(10 * time.Second):
				ok = false
			}
		}
		if !ok {
			s.Shutdown()
			continue
		}
		srv, addr = s, net.JoinHostPort(cfg.IP, fmt.Sprint(port))
	}
	if srv == nil {
		fmt.Println("could not start a server")
		return 2
	}
	journal("server up %s %+v", addr, cfg)
	compare := func(q *dns.Msg, tcp bool, label string) {
		got, wireLen, err := c20Exchange(addr, tcp, q.Copy())
		sum.Exchanges++
		if err != nil {
			fail("%s: no reply over the wire: %v; query %s", label, err, oneLine(q))
			return
		}
		if got.Id != q.Id {
			fail("%s: reply id %d for query id %d", label, got.Id, q.Id)
		}
		qn := strings.ToLower(q.Question[0].Name)
		if cfg.Whoami && qn == c20WhoamiDomain {
			sum.Counts["whoami_queries"]++
			if q.Question[0].Qtype == dns.TypeTXT {
				found := false
				for _, rr := range got.Answer {
					if t, ok := rr.(*dns.TXT); ok && strings.HasPrefix(strings.Join(t.Txt, ""), "source ") {
						found = true
					}
				}
				if !found {
					fail("%s: whoami TXT query not answered by the whoami handler: %s", label, oneLine(got))
				}
			}
			return
		}
		if cfg.RefuseANY && q.Question[0].Qtype == dns.TypeANY {
			sum.Counts["any_refusals"]++
			okAny := len(got.Answer) == 1 && len(got.Ns) == 0
			if okAny {
				h, isH := got.Answer[0].(*dns.HINFO)
				okAny = isH && h.Cpu == "RFC 8482" && h.Os == ""
			}
			for _, rr := range got.Extra {
				if _, ok := rr.(*dns.OPT); !ok {
					okAny = false
				}
			}
			if !okAny {
				fail("%s: ANY with refusal enabled is not the single synthesized HINFO: %s", label, oneLine(got))
			}
			return
		}
		// in-process reference: same database, same remote address family, same max answer
		rw := harness.NewWriter(cfg.IP, tcp)
		res := ref.Serve(q.Copy(), rw, cfg.MaxAns)
		var want *dns.Msg
		if res.Wire != nil {
			want = new(dns.Msg)
			want.Unpack(res.Wire)
		}
		a, bb := c20Canon(got), c20Canon(want)
		if a != bb {
			fail("%s: answer over the wire differs from the bare handler's:\n--- wire\n%s\n--- handler\n%s\nquery %s", label, a, bb, oneLine(q))
			return
		}
		if got.Truncated {
			sum.Counts["truncated_replies"]++
		}
		if !tcp {
			adv := 512
			if o := q.IsEdns0(); o != nil && int(o.UDPSize()) > adv {
				adv = int(o.UDPSize())
			}
			if wireLen > adv && !got.Truncated {
				fail("%s: UDP reply of %d bytes exceeds the advertised %d without TC", label, wireLen, adv)
			} else if wireLen > adv {
				fail("%s: truncated UDP reply (TC set) of %d bytes still exceeds the advertised %d; query %s", label, wireLen, adv, oneLine(q))
			}
		}
	}
	qs := w.Queries(rng, nq)
	sizes := []int{-1, 512, 1232, 4096}
	for i, gq := range qs {
		q := harness.MakeQuery(gen.Presentation(gq.Name), gq.Type, uint16(1000+i))
		if rng.Intn(8) == 0 {
			q.Question[0].Qtype = dns.TypeANY
		}
		if rng.Intn(5) == 0 { // classes other than IN: the front handlers and the database handler do not look at the class
			q.Question[0].Qclass = []uint16{dns.ClassCHAOS, dns.ClassHESIOD, dns.ClassNONE, dns.ClassANY, 2, 65280}[rng.Intn(6)]
			sum.Counts["non_in_class_queries"]++
			if q.Question[0].Qtype == dns.TypeANY {
				sum.Counts["non_in_class_any_queries"]++
			}
		}
		tcp := rng.Intn(3) == 0
		if sz := sizes[rng.Intn(len(sizes))]; sz > 0 {
			harness.AddECS(q, "", uint16(sz))
			if rng.Intn(3) == 0 {
				q.Extra = nil
				harness.AddECS(q, []string{"198.51.1.0/24", "2001:db8:e1::/48", "10.1.0.0/16"}[rng.Intn(3)], uint16(sz))
			}
		}
		compare(q, tcp, fmt.Sprintf("q%d", i))
		if len(sum.Samples) < 3 {
			sum.Samples = append(sum.Samples, fmt.Sprintf("tcp=%v %s", tcp, oneLine(q)))
		}
	}
	// every listener applies its own max-answer: a name with 6 A and 6 AAAA candidates asked on each address
	type lst struct {
		ip  string
		max int
	}
	listeners := []lst{{cfg.IP, cfg.MaxAns}}
	if cfg.IP2 != "" {
		listeners = append(listeners, lst{cfg.IP2, cfg.MaxAns2})
	}
	mainAddr, mainMax, mainIP := addr, cfg.MaxAns, cfg.IP
	for _, l := range listeners {
		_, port, _ := net.SplitHostPort(mainAddr)
		addr = net.JoinHostPort(l.ip, port)
		cfg.MaxAns, cfg.IP = l.max, l.ip
		for _, t := range []uint16{dns.TypeA, dns.TypeAAAA} {
			for _, tcp := range []bool{false, true} {
				q := harness.MakeQuery("wrr.example.com.", t, 91)
				compare(q, tcp, fmt.Sprintf("listener %s max %d", l.ip, l.max))
				got, _, err := c20Exchange(addr, tcp, q.Copy())
				want := l.max
				if want > 6 {
					want = 6
				}
				if err == nil && len(got.Answer) != want {
					fail("listener %s (max-answer %d, tcp=%v): wrr.example.com type %d answered with %d records", l.ip, l.max, tcp, t, len(got.Answer))
				}
				sum.Counts["per_listener_max_answer_checks"]++
			}
		}
	}
	addr, cfg.MaxAns, cfg.IP = mainAddr, mainMax, mainIP
	// whoami domain (any letter case), and names below / next to it, which belong to the database
	for _, t := range []uint16{dns.TypeTXT, dns.TypeA} {
		for _, n := range []string{c20WhoamiDomain, "WhoAmI.Example.COM.", "a." + c20WhoamiDomain, "b.a." + c20WhoamiDomain, "nx." + c20WhoamiDomain, "xwhoami.example.com."} {
			q := harness.MakeQuery(n, t, 77)
			compare(q, false, "whoami")
			compare(q, true, "whoami-tcp")
			if n != c20WhoamiDomain && !strings.EqualFold(n, c20WhoamiDomain) {
				sum.Counts["queries_below_or_next_to_the_whoami_domain"] += 2
			}
		}
	}
	// the client's own address decides the view, over UDP and over TCP alike: asked from 127.0.0.2 (the listener is
	// on 127.0.0.1) the reply must be what the bare handler gives a client at 127.0.0.2
	if cfg.IP == "127.0.0.1" {
		for _, tcp := range []bool{false, true} {
			for _, t := range []uint16{dns.TypeTXT, dns.TypeA} {
				q := harness.MakeQuery("view.example.com.", t, 93)
				got, _, err := c20ExchangeFrom(addr, tcp, q.Copy(), "127.0.0.2")
				sum.Exchanges++
				if err != nil {
					fail("view query from 127.0.0.2 (tcp=%v): no reply: %v", tcp, err)
					continue
				}
				res := ref.Serve(q.Copy(), harness.NewWriter("127.0.0.2", tcp), cfg.MaxAns)
				var want *dns.Msg
				if res.Wire != nil {
					want = new(dns.Msg)
					want.Unpack(res.Wire)
				}
				if a, bb := c20Canon(got), c20Canon(want); a != bb {
					fail("client at 127.0.0.2, listener on 127.0.0.1, tcp=%v: answer over the wire differs from the bare handler's for that client:\n--- wire\n%s\n--- handler\n%s", tcp, a, bb)
				}
				sum.Counts["queries_from_another_source_address"]++
			}
		}
	}
	// oversized answers: truncated over UDP, complete over TCP
	for _, bq := range []struct {
		name string
		t    uint16
	}{{"big.example.com.", dns.TypeTXT}, {"x.manyns.example.com.", dns.TypeA}, {"manyns.example.com.", dns.TypeNS}} {
		for si, sz := range []int{-1, 512, 1232, 4096, 512, 700, 1232, 1500} {
			q := harness.MakeQuery(bq.name, bq.t, 88)
			if sz > 0 {
				ecs := ""
				if si >= 4 { // with a client-subnet option, which the reply echoes: it counts against the buffer too
					ecs = []string{"198.51.1.0/24", "2001:db8:e1::/48"}[si%2]
					sum.Counts["oversized_queries_with_client_subnet"]++
				}
				harness.AddECS(q, ecs, uint16(sz))
			}
			compare(q, false, "big-udp")
			got, wl, err := c20Exchange(addr, false, q.Copy())
			if err == nil {
				adv := 512
				if sz > adv {
					adv = sz
				}
				if !got.Truncated && wl > adv {
					fail("oversized %s over UDP: %d bytes > %d without TC", bq.name, wl, adv)
				}
				if got.Truncated {
					sum.Counts["oversized_truncated"]++
				}
			}
		}
		q := harness.MakeQuery(bq.name, bq.t, 89)
		compare(q, true, "big-tcp")
		got, _, err := c20Exchange(addr, true, q.Copy())
		if err != nil || got.Truncated {
			fail("oversized %s over TCP is not complete (err %v)", bq.name, err)
		} else if bq.t == dns.TypeTXT && len(got.Answer) != 40 {
			fail("oversized %s over TCP holds %d of 40 records", bq.name, len(got.Answer))
		} else {
			sum.Counts["oversized_complete_over_tcp"]++
		}
	}
	// a message without a question: failure reply, server stays up. Three shapes: QDCOUNT=0 (the DNS library refuses
	// it before any handler runs), and a bare header that CLAIMS one question / one question and one additional record
	// but carries none - the library accepts those and hands the front handlers a message with an empty question section
	hdr := func(qd, ar uint16) []byte {
		return []byte{0x10, 0x92, 0, 0, byte(qd >> 8), byte(qd), 0, 0, 0, 0, byte(ar >> 8), byte(ar)}
	}
	for _, tcp := range []bool{false, true} {
		for wi, wire := range [][]byte{hdr(0, 0), hdr(1, 0), hdr(1, 1)} {
			got, err := c20ExchangeRaw(addr, tcp, wire)
			sum.Exchanges++
			if err != nil {
				fail("question-less message #%d (tcp=%v): no reply: %v", wi, tcp, err)
			} else if got.Rcode == dns.RcodeSuccess {
				fail("question-less message #%d (tcp=%v) answered with NOERROR: %s", wi, tcp, oneLine(got))
			} else {
				sum.Counts["questionless_failure_replies"]++
			}
			compare(harness.MakeQuery("single.example.com.", dns.TypeA, 90), tcp, "after-questionless")
		}
	}
	// shutdown under load
	journal("shutdown under load")
	var wg sync.WaitGroup
	stop := make(chan struct{})
	for g := 0; g < 8; g++ {
		wg.Add(1)
		go func(g int) {
			defer wg.Done()
			for i := 0; ; i++ {
				select {
				case <-stop:
					return
				default:
				}
				c20Exchange(addr, g%2 == 0, harness.MakeQuery("single.example.com.", dns.TypeA, uint16(i)))
			}
		}(g)
	}
	time.Sleep(50 * time.Millisecond)
	srv.Shutdown()
	close(stop)
	wg.Wait()
	b2, _ := json.Marshal(sum)
	fmt.Printf("SUMMARY %s\n", b2)
	return 0
}

func oneLine(m *dns.Msg) string {
	return strings.Join(strings.Fields(strings.ReplaceAll(m.String(), "\n", " | ")), " ")
}

func runC20(r *report.Run) {
	r.SetRule("a real fbserver.Server on a loopback port (UDP+TCP) per configuration {backend x whoami domain set/unset x refuse-any on/off x max-answer 1/3/8 x 127.0.0.1/::1, plus servers bound to two addresses with different max-answer settings, two of them with the response cache on (the larger max-answer is asked first)}, race-detector build, child process each; generated queries (names of a generated file, standard and ANY types, one in five with a class other than IN, no EDNS / 512 / 1232 / 4096, with and without ECS) sent with a DNS client over UDP and TCP; every reply is compared canonically with the bare FBDNSDB handler on the same database, remote address and max-answer (addresses reduced to owner+type); oversized answers (40 TXT / 40 NS with glue, also asked with a client-subnet option) must come back with TC over UDP within the advertised size (actual datagram length; a truncated reply has to fit too) and complete over TCP; ANY with refusal must be exactly the synthesized HINFO; a name whose answer depends on the client's address is asked from 127.0.0.2 while the listener is on 127.0.0.1, over UDP and TCP, and compared with the bare handler's answer for a client at 127.0.0.2; whoami-domain queries (any letter case) must be answered by the whoami handler, names below and next to the whoami domain by the database; question-less messages (QDCOUNT=0, and bare headers claiming QDCOUNT=1 with and without ARCOUNT=1, which the DNS library lets through to the front handlers) must get a failure rcode and the server must keep answering; shutdown is performed under load. non-trivial = configuration whose exchanges include a truncated reply and a TCP reply; distinct by configuration")
	r.Assume("loopback only; the harness picks a port free for UDP and TCP and retries on bind failure")
	var cfgs []c20Config
	i := 0
	for _, who := range []bool{false, true} {
		for _, any := range []bool{false, true} {
			for _, max := range []int{1, 3, 8} {
				b := harness.Backends[i%3]
				ip := []string{"127.0.0.1", "::1"}[i%2]
				cfgs = append(cfgs, c20Config{Backend: b.Name, Whoami: who, RefuseANY: any, MaxAns: max, IP: ip})
				i++
			}
		}
	}
	multi := []c20Config{
		{Backend: "cdb", MaxAns: 1, IP: "127.0.0.1", IP2: "127.0.0.2", MaxAns2: 3},
		{Backend: "rdb2", RefuseANY: true, MaxAns: 8, IP: "::1", IP2: "127.0.0.1", MaxAns2: 2, Cache: true},
		{Backend: "rdb1", Whoami: true, MaxAns: 8, IP: "127.0.0.1", IP2: "127.0.0.2", MaxAns2: 1, Cache: true},
	}
	if !r.Thorough() {
		// quick: half of the configurations, rotated by the seed (every value of every dimension still appears)
		var half []c20Config
		for j, c := range cfgs {
			if (j+int(r.Seed))%2 == 0 {
				half = append(half, c)
			}
		}
		cfgs = half
	}
	cfgs = append(cfgs, multi...) // servers bound to two addresses with different max-answer settings
	type out struct {
		cfg c20Config
		res *childResult
		err error
	}
	outs := make([]out, len(cfgs))
	var wg sync.WaitGroup
	sem := make(chan struct{}, 4)
	for j, c := range cfgs {
		wg.Add(1)
		go func(j int, c c20Config) {
			defer wg.Done()
			sem <- struct{}{}
			defer func() { <-sem }()
			cj, _ := json.Marshal(c)
			res, err := runChild(true, "c20", []string{string(cj), fmt.Sprint(r.Seed*47 + int64(j)), fmt.Sprint(r.Pick(250, 1200))}, 20*time.Minute)
			outs[j] = out{c, res, err}
		}(j, c)
	}
	wg.Wait()
	var logs []string
	for _, o := range outs {
		r.Eval(1)
		if o.err != nil {
			r.Inconclusive(o.err.Error())
			continue
		}
		logs = append(logs, o.res.RaceLogs...)
		if o.res.TimedOut {
			r.Inconclusive(fmt.Sprintf("%+v: child timed out", o.cfg))
			continue
		}
		if o.res.Summary == nil {
			last := ""
			if len(o.res.Journal) > 0 {
				last = o.res.Journal[len(o.res.Journal)-1]
			}
			if o.res.ExitCode == 2 && strings.Contains(o.res.Stdout, "could not start") {
				r.Inconclusive(fmt.Sprintf("%+v: could not bind a loopback port", o.cfg))
				continue
			}
			r.Violation("", fmt.Sprintf("%+v: server process died (exit %d) after %q:\n%s", o.cfg, o.res.ExitCode, last, firstLines(o.res.Stderr, 14)), o.cfg)
			continue
		}
		var sum c20Summary
		bs, _ := json.Marshal(o.res.Summary)
		json.Unmarshal(bs, &sum)
		r.Count("exchanges", int64(sum.Exchanges))
		for k, v := range sum.Counts {
			r.Count(k, v)
		}
		if sum.Counts["oversized_truncated"] > 0 && sum.Counts["oversized_complete_over_tcp"] > 0 {
			r.Nontrivial(fmt.Sprintf("%+v", o.cfg))
		}
		if r.SampleN() < 3 && len(sum.Samples) > 0 {
			r.Sample(map[string]interface{}{"config": o.cfg, "queries": sum.Samples})
		}
		for _, v := range sum.Violations {
			r.Violation("", fmt.Sprintf("%+v: %s", o.cfg, v), o.cfg)
		}
	}
	total, uniq := dedupRaces(logs)
	r.Count("race_detector_reports", int64(total))
	for _, u := range uniq {
		r.Violation("", "data race in the running server:\n"+u.Text, map[string]interface{}{"report": u.Text})
	}
}

func replayC20(r *report.Run, raw json.RawMessage) {
	var c c20Config
	if err := json.Unmarshal(raw, &c); err != nil || c.Backend == "" {
		r.Inconclusive("unrecognised replay file")
		return
	}
	cj, _ := json.Marshal(c)
	res, err := runChild(true, "c20", []string{string(cj), fmt.Sprint(report.Seed() * 47), "300"}, 20*time.Minute)
	if err != nil {
		r.Inconclusive(err.Error())
		return
	}
	fmt.Println(res.Stdout)
	if vs, ok := res.Summary["Violations"].([]interface{}); ok && len(vs) > 0 {
		r.Violation("", fmt.Sprint(vs[0]), c)
	}
}
