// Package checks holds one monitor per property.
package checks

import (
	"encoding/json"
	"fmt"
	"os"

	"verif/internal/report"
)

// Check describes one property monitor.
type Check struct {
	Level  string
	Run    func(r *report.Run)
	Replay func(r *report.Run, c json.RawMessage)
}

// Registry maps property ids to monitors.
var Registry = map[string]*Check{}

// Workers maps worker names to child-process entry points.
var Workers = map[string]func(args []string) int{}

// RunWorker runs a child-process entry point.
func RunWorker(name string, args []string) int {
	w, ok := Workers[name]
	if !ok {
		fmt.Fprintf(os.Stderr, "unknown worker %s\n", name)
		return 2
	}
	return w(args)
}

func register(id, level string, run func(r *report.Run), replay func(r *report.Run, c json.RawMessage)) {
	Registry[id] = &Check{Level: level, Run: run, Replay: replay}
}
