package checks

import (
	"encoding/json"
	"fmt"
	"math/rand"
	"path/filepath"
	"strings"

	"github.com/facebookincubator/dns/dnsrocks/db"
	"github.com/miekg/dns"

	"verif/internal/gen"
	"verif/internal/harness"
	"verif/internal/model"
	"verif/internal/report"
)

func init() {
	register("C02", "exploration", runC02, replayC02)
}

// c02Config is one storage configuration + compiler options.
type c02Config struct {
	Name     string
	B        harness.Backend
	Separate bool // CDB with per-family prefix-length sets (FBDNS_SEPARATE_MASKLENS)
	Workers  int
	RDB      harness.RDBOpts
	Cache    bool // response cache on (used by C10's cached variants)
}

var c02Configs = []c02Config{
	{Name: "cdb-combined-w1", B: harness.Backends[0], Workers: 1},
	{Name: "cdb-separate-w16", B: harness.Backends[0], Workers: 16, Separate: true},
	{Name: "rdb1-builder-cpu1", B: harness.Backends[1], RDB: harness.RDBOpts{Builder: true, NumCPU: 1}},
	{Name: "rdb2-builder-cpu4", B: harness.Backends[2], RDB: harness.RDBOpts{V2: true, Builder: true, NumCPU: 4}},
	{Name: "rdb1-batch7-par4", B: harness.Backends[1], RDB: harness.RDBOpts{BatchSize: 7, BatchParallel: 4, NumCPU: 4}},
	{Name: "rdb2-batch1000-par1-cpu16", B: harness.Backends[2], RDB: harness.RDBOpts{V2: true, BatchSize: 1000, BatchParallel: 1, NumCPU: 16}},
}

type c02Query struct {
	Name   string `json:"qname"` // presentation format as sent
	Type   uint16 `json:"qtype"`
	Class  uint16 `json:"qclass"`
	IP     string `json:"ip"`
	EDNS   bool   `json:"edns"`
	DO     bool   `json:"do,omitempty"`
	Size   uint16 `json:"size,omitempty"`
	ECSFam uint16 `json:"ecs_family,omitempty"`
	ECSSrc uint8  `json:"ecs_source,omitempty"`
	ECSIP  []byte `json:"ecs_addr,omitempty"`
	HasECS bool   `json:"has_ecs,omitempty"`
	Cookie bool   `json:"cookie,omitempty"`
	TCP    bool   `json:"tcp,omitempty"`
	RD     bool   `json:"rd,omitempty"` // header bits a reply copies from its query
	CD     bool   `json:"cd,omitempty"`
	EVer   uint8  `json:"edns_version,omitempty"` // EDNS version of the OPT record (0 = the supported one)
}

func (q c02Query) Msg() *dns.Msg {
	m := new(dns.Msg)
	m.Id = 4711
	m.RecursionDesired, m.CheckingDisabled = q.RD, q.CD
	m.Question = []dns.Question{{Name: q.Name, Qtype: q.Type, Qclass: q.Class}}
	if q.EDNS {
		o := &dns.OPT{Hdr: dns.RR_Header{Name: ".", Rrtype: dns.TypeOPT}}
		sz := q.Size
		if sz == 0 {
			sz = 4096
		}
		o.SetUDPSize(sz)
		if q.DO {
			o.SetDo()
		}
		if q.EVer != 0 {
			o.SetVersion(q.EVer)
		}
		if q.Cookie {
			o.Option = append(o.Option, &dns.EDNS0_COOKIE{Code: dns.EDNS0COOKIE, Cookie: "0123456789abcdef"})
		}
		if q.HasECS {
			o.Option = append(o.Option, &dns.EDNS0_SUBNET{Code: dns.EDNS0SUBNET, Family: q.ECSFam, SourceNetmask: q.ECSSrc, Address: append([]byte{}, q.ECSIP...)})
		}
		m.Extra = append(m.Extra, o)
	}
	return m
}

func c02FromClient(name string, qtype uint16, c gen.Client, rng *rand.Rand) c02Query {
	q := c02Query{Name: name, Type: qtype, Class: dns.ClassINET, IP: c.IP}
	if c.ECS != "" {
		m := new(dns.Msg)
		harness.AddECS(m, c.ECS, 4096)
		e := m.Extra[0].(*dns.OPT).Option[0].(*dns.EDNS0_SUBNET)
		q.EDNS, q.HasECS, q.ECSFam, q.ECSSrc, q.ECSIP = true, true, e.Family, e.SourceNetmask, e.Address
	}
	switch rng.Intn(12) {
	case 0:
		q.Class = dns.ClassCHAOS
	case 1:
		q.EDNS, q.DO = true, true
	case 2:
		q.EDNS, q.Size = true, []uint16{512, 1232, 0, 65535}[rng.Intn(4)]
	case 3:
		q.EDNS, q.Cookie = true, true
	case 4:
		q.TCP = true
	}
	q.RD, q.CD = rng.Intn(3) == 0, rng.Intn(5) == 0
	return q
}

type c02Opened struct {
	cfg c02Config
	srv *harness.Server
}

func c02Open(text []byte, cfgs []c02Config) ([]c02Opened, func(), error) {
	var out []c02Opened
	var paths []string
	cleanup := func() {
		for _, o := range out {
			o.srv.Close()
		}
		for _, p := range paths {
			harness.Remove(p)
		}
	}
	for _, cfg := range cfgs {
		var path string
		var err error
		if cfg.B.Driver == "cdb" {
			path = filepath.Join(harness.NewDir("cdb"), "data.cdb")
			err = harness.CompileCDB(text, path, cfg.Workers)
		} else {
			path = harness.NewDir(cfg.B.Name)
			err = harness.CompileRDB(text, path, cfg.RDB)
		}
		paths = append(paths, path)
		if err != nil {
			cleanup()
			return nil, nil, fmt.Errorf("%s: compile: %v", cfg.Name, err)
		}
		sv, err := harness.OpenServer(path, cfg.B, harness.ServerOpts{Cache: cfg.Cache})
		if err != nil {
			cleanup()
			return nil, nil, fmt.Errorf("%s: load: %v", cfg.Name, err)
		}
		out = append(out, c02Opened{cfg, sv})
	}
	return out, cleanup, nil
}

func setSeparate(v bool) { db.SeparateBitMap = v }

// c02Answer renders what a configuration does with a query, as a comparable string.
func c02Answer(o c02Opened, q c02Query, maxAns int) string {
	db.SeparateBitMap = o.cfg.Separate
	defer func() { db.SeparateBitMap = false }()
	res := o.srv.Serve(q.Msg(), harness.NewWriter(q.IP, q.TCP), maxAns)
	if res.Panic != "" {
		return "PANIC " + res.Panic
	}
	if res.Msg == nil {
		return fmt.Sprintf("NO-RESPONSE rcode=%d err=%v", res.Rcode, res.Err != nil)
	}
	return harness.CanonMsg(res.Msg).Full(false)
}

func c02World(seed int64) *gen.World {
	return gen.GenWorld(rand.New(rand.NewSource(seed)), gen.WorldOpts{Layout: -1})
}

func c02Queries(w *gen.World, rng *rand.Rand, n int) []c02Query {
	base := w.Queries(rng, n)
	clients := w.Clients(rng)
	// hostile / unusual clients in addition to the located ones
	extra := []gen.Client{{IP: "10.1.0.5", ECS: "198.51.1.77/24"}, {IP: "10.2.0.5", ECS: "198.51.2.200/25"}, {IP: "203.0.113.9", ECS: "198.51.1.0/32"},
		{IP: "10.1.0.5", ECS: "2001:db8:e1::1234/48"}, {IP: "::ffff:10.1.0.5"}, {IP: "10.1.0.5", ECS: "10.1.0.0/16"}, {IP: "203.0.113.9", ECS: "::/0"}}
	var out []c02Query
	for _, b := range base {
		name := gen.Presentation(b.Name)
		if rng.Intn(3) == 0 {
			name = strings.ToUpper(name)
		}
		t := b.Type
		switch rng.Intn(10) {
		case 0:
			t = dns.TypeDS
		case 1:
			t = dns.TypeANY
		}
		c := clients[rng.Intn(len(clients))]
		if rng.Intn(6) == 0 {
			c = extra[rng.Intn(len(extra))]
		}
		q := c02FromClient(name, t, c, rng)
		if rng.Intn(40) == 0 && q.HasECS { // family the server does not know
			q.ECSFam = 3
		}
		out = append(out, q)
	}
	return out
}

type c02Case struct {
	WorldSeed int64    `json:"world_seed"`
	Query     c02Query `json:"query"`
	A, B      string
	File      string `json:"file,omitempty"`
}

func runC02(r *report.Run) {
	r.SetRule("the data files of C01's generator compiled to six configurations (CDB workers 1/16 read with combined and per-family prefix sets; RocksDB v1/v2 via builder with 1/4 CPUs and via batches of size 7/1000 with parallelism 4/1); the same query (C01's names plus DS, ANY, class CH, random case, EDNS with DO/sizes/cookie, TCP, located resolver and ECS clients, ECS with host bits set, unknown ECS family) is sent to all six and the full canonical responses (all sections as multisets, OPT/ECS incl. scope, additional addresses by owner+family) are compared pairwise against the first. non-trivial = query whose response is not REFUSED and whose name lies at/below a delegation, matches a wildcard, or comes from a located client; distinct by (file, query)")
	r.Assume("address answers compared with max-answer >= candidates; additional-section addresses (max one per family, random) compared by owner and family only")
	nfiles := r.Pick(40, 600)
	for i := 0; i < nfiles; i++ {
		seed := r.Seed*7000003 + int64(i)
		w := c02World(seed)
		text := w.Text()
		rng := rand.New(rand.NewSource(seed ^ 0x2545f491))
		ix := model.NewIndex(w.Recs)
		opened, cleanup, err := c02Open(text, c02Configs)
		r.Eval(1)
		if err != nil {
			r.Violation("", "well-formed file rejected: "+err.Error(), c02Case{WorldSeed: seed, File: string(text)})
			continue
		}
		maxAns := ix.MaxCandidates() + 1
		qs := c02Queries(w, rng, r.Pick(220, 400))
		if i == 0 {
			b, _ := json.Marshal(qs[:3])
			r.Sample(map[string]interface{}{"file_lines": len(w.Lines), "first_queries": json.RawMessage(b), "configs": len(opened)})
		}
		for _, q := range qs {
			ref := c02Answer(opened[0], q, maxAns)
			r.Count("queries", 1)
			if strings.HasPrefix(ref, "NO-RESPONSE") {
				r.Count("no_response_queries", 1)
			}
			if q.Type == dns.TypeDS {
				r.Count("ds_queries", 1)
			}
			if q.Type == dns.TypeANY {
				r.Count("any_queries", 1)
			}
			if q.HasECS {
				r.Count("ecs_queries", 1)
			}
			if !strings.HasPrefix(ref, "rcode=5") && !strings.HasPrefix(ref, "NO-RESPONSE") {
				r.Nontrivial(fmt.Sprintf("%d|%+v", seed, q))
			}
			for _, o := range opened[1:] {
				got := c02Answer(o, q, maxAns)
				r.Count("comparisons", 1)
				if got != ref {
					r.Violation("", fmt.Sprintf("%s and %s answer %+v differently:\n--- %s\n%s\n--- %s\n%s", opened[0].cfg.Name, o.cfg.Name, q, opened[0].cfg.Name, ref, o.cfg.Name, got),
						c02Case{WorldSeed: seed, Query: q, A: opened[0].cfg.Name, B: o.cfg.Name, File: string(text)})
					break
				}
			}
		}
		cleanup()
		if r.Violations() >= 12 {
			break
		}
	}
}

func replayC02(r *report.Run, raw json.RawMessage) {
	var c c02Case
	if err := json.Unmarshal(raw, &c); err != nil {
		r.Inconclusive(err.Error())
		return
	}
	w := c02World(c.WorldSeed)
	text := w.Text()
	if c.File != "" {
		text = []byte(c.File)
	}
	opened, cleanup, err := c02Open(text, c02Configs)
	if err != nil {
		r.Violation("", err.Error(), c)
		return
	}
	defer cleanup()
	maxAns := model.NewIndex(w.Recs).MaxCandidates() + 1
	ref := c02Answer(opened[0], c.Query, maxAns)
	fmt.Printf("--- %s\n%s\n", opened[0].cfg.Name, ref)
	for _, o := range opened[1:] {
		got := c02Answer(o, c.Query, maxAns)
		if got != ref {
			fmt.Printf("--- %s\n%s\n", o.cfg.Name, got)
			r.Violation("", "configurations differ", c)
		}
	}
}
