package checks

import (
	"encoding/json"
	"errors"
	"fmt"
	"math/rand"
	"net"
	"os"
	"runtime"
	"strconv"
	"strings"
	"sync"
	"sync/atomic"
	"time"

	"github.com/facebookincubator/dns/dnsrocks/db"
	"github.com/facebookincubator/dns/dnsrocks/dnsserver"

	"verif/internal/harness"
	"verif/internal/report"
)

func init() {
	register("C06", "fault_enumeration", runC06, replayC06)
	Workers["c06real"] = c06RealWorker
}

// ---- instrumented backend ----

type c06World struct {
	mu       sync.Mutex
	insts    []*tracedDBI
	viol     []string
	events   int64
	blocked  []*c06Block           // reloads currently blocked, FIFO
	all      []*c06Block           // every block ever created
	byPath   map[string]*tracedDBI // reload path -> the instance that reload created
	scripted map[string]bool
}

type c06Block struct {
	release chan struct{}
	done    chan struct{}
}

type tracedDBI struct {
	w      *c06World
	id     int
	valid  bool // holds the validation key
	closed int32
	closes int32
	inUse  int32 // calls currently inside the backend
	uses   int64
}

type tracedCtx struct{}

func (tracedCtx) Reset() {}

func (w *c06World) violate(format string, a ...interface{}) {
	w.mu.Lock()
	if len(w.viol) < 10 {
		w.viol = append(w.viol, fmt.Sprintf(format, a...))
	}
	w.mu.Unlock()
}

func (w *c06World) newInst(valid bool) *tracedDBI {
	w.mu.Lock()
	defer w.mu.Unlock()
	t := &tracedDBI{w: w, id: len(w.insts), valid: valid}
	w.insts = append(w.insts, t)
	return t
}

func (t *tracedDBI) enter(op string) {
	atomic.AddInt64(&t.w.events, 1)
	atomic.AddInt64(&t.uses, 1)
	atomic.AddInt32(&t.inUse, 1)
	if atomic.LoadInt32(&t.closed) != 0 {
		t.w.violate("backend #%d used (%s) after it was closed", t.id, op)
	}
}
func (t *tracedDBI) leave(op string) {
	if atomic.LoadInt32(&t.closed) != 0 {
		t.w.violate("backend #%d was closed while %s was still running on it", t.id, op)
	}
	atomic.AddInt32(&t.inUse, -1)
}

func (t *tracedDBI) NewContext() db.Context {
	t.enter("NewContext")
	defer t.leave("NewContext")
	return tracedCtx{}
}
func (t *tracedDBI) FreeContext(db.Context) {
	t.enter("FreeContext")
	defer t.leave("FreeContext")
}
func (t *tracedDBI) Find(key []byte, c db.Context) ([]byte, error) {
	t.enter("Find")
	defer t.leave("Find")
	return nil, errors.New("EOF")
}
func (t *tracedDBI) ForEach(key []byte, f func([]byte) error, c db.Context) error {
	t.enter("ForEach")
	defer t.leave("ForEach")
	if t.valid {
		return f([]byte("value"))
	}
	return nil
}
func (t *tracedDBI) FindMap(domain, mtype []byte, c db.Context) ([]byte, error) {
	t.enter("FindMap")
	defer t.leave("FindMap")
	return nil, nil
}
func (t *tracedDBI) GetLocationByMap(ipnet *net.IPNet, mapID []byte, c db.Context) ([]byte, uint8, error) {
	t.enter("GetLocationByMap")
	defer t.leave("GetLocationByMap")
	return nil, 0, nil
}
func (t *tracedDBI) GetStats() map[string]int64 {
	t.enter("GetStats")
	defer t.leave("GetStats")
	return map[string]int64{}
}
func (t *tracedDBI) ClosestKeyFinder() db.ClosestKeyFinder { return nil }

func (t *tracedDBI) Close() error {
	atomic.AddInt64(&t.w.events, 1)
	if n := atomic.AddInt32(&t.closes, 1); n > 1 {
		t.w.violate("backend #%d closed %d times", t.id, n)
	}
	if atomic.LoadInt32(&t.inUse) != 0 {
		t.w.violate("backend #%d closed while a call is running on it (a reload still in progress)", t.id)
	}
	atomic.StoreInt32(&t.closed, 1)
	return nil
}

// Reload is scripted by the path: NO, SO, OE, NV, SV, BN, BS, BF.
func (t *tracedDBI) Reload(path string) (db.DBI, error) {
	kind := path
	if i := strings.IndexByte(path, '#'); i >= 0 {
		kind = path[:i]
	}
	atomic.AddInt64(&t.w.events, 1)
	if atomic.LoadInt32(&t.closed) != 0 {
		t.w.violate("Reload called on backend #%d after it was closed", t.id)
	}
	// only a same-backend reload (a catch-up) works on the old backend for its whole duration;
	// opening another database does not touch it
	same := kind == "SO" || kind == "SV" || kind == "BS"
	if same {
		t.enter("Reload(same backend)")
		defer t.leave("Reload(same backend)")
	}
	if kind[0] == 'B' {
		blk := &c06Block{release: make(chan struct{}), done: make(chan struct{})}
		t.w.mu.Lock()
		t.w.blocked = append(t.w.blocked, blk)
		t.w.all = append(t.w.all, blk)
		t.w.mu.Unlock()
		defer close(blk.done)
		<-blk.release
		// the backend is touched again when a slow same-backend reload finishes (a catch-up completing)
		if same && atomic.LoadInt32(&t.closed) != 0 {
			t.w.violate("backend #%d: slow reload (%s) finished on a backend that was closed meanwhile", t.id, kind)
		}
	}
	if kind == "TN" {
		// a new backend whose opening takes the number of microseconds given after '@' (used to finish right at the reload timeout)
		us := 0
		fmt.Sscanf(path[strings.IndexByte(path, '@')+1:], "%d", &us)
		time.Sleep(time.Duration(us) * time.Microsecond)
	}
	switch kind {
	case "NO", "BN", "TN":
		n := t.w.newInst(true)
		t.w.mu.Lock()
		if t.w.byPath == nil {
			t.w.byPath = map[string]*tracedDBI{}
		}
		t.w.byPath[path] = n
		t.w.mu.Unlock()
		return n, nil
	case "SO", "BS":
		return t, nil
	case "OE", "BF":
		return nil, errors.New("scripted open error")
	case "NV":
		return t.w.newInst(false), nil
	case "SV":
		// the same backend, but the validation key is (no longer) there
		t.valid = false
		return t, nil
	}
	return nil, fmt.Errorf("unknown scripted reload %q", path)
}

// ---- hook dispatch: a reload whose payload is registered here gets a callback at r:reloaded ----

var (
	c06HookOnce sync.Once
	c06Hooks    sync.Map // payload -> func()
)

func c06InstallHook() {
	c06HookOnce.Do(func() {
		dnsserver.SetVerifHook(func(point string, arg interface{}) {
			if point != "r:reloaded" {
				return
			}
			if sig, ok := arg.(dnsserver.ReloadSignal); ok {
				if f, ok := c06Hooks.Load(sig.Payload); ok {
					f.(func())()
				}
			}
		})
	})
}

var c06WorldSeq int64

// ---- operation sequences ----

// ops: A acquire, Uo/Un use oldest/newest reader, Ro/Rn release oldest/newest reader,
// reload kinds, X unblock the oldest blocked reload, S shutdown (terminal).
// NOq = NO during which (between the return of db.Reload and the switch of the served DB) another goroutine
// acquires a reader and uses it (only through FBDNSDB; the direct mode has no such window).
var c06Ops = []string{"A", "Uo", "Un", "Ro", "Rn", "NO", "SO", "OE", "NV", "SV", "BN", "BS", "BF", "X", "S", "NOq"}

type c06Reader struct {
	rd   db.Reader
	inst *tracedDBI
}

// c06Run executes one sequence; viaHandler selects FBDNSDB (true) or db.DB directly.
// Returns the violations and whether the sequence was applicable (ops valid in their state).
// c06Applicable validates a sequence against the operation preconditions without running it.
func c06Applicable(seq []string) bool {
	readers, blocked, shut := 0, 0, false
	for _, op := range seq {
		if shut {
			return false
		}
		switch op {
		case "A":
			if readers >= 3 {
				return false
			}
			readers++
		case "Uo", "Ro":
			if readers == 0 {
				return false
			}
			if op == "Ro" {
				readers--
			}
		case "Un", "Rn":
			if readers < 2 {
				return false // with one reader it is the 'o' variant
			}
			if op == "Rn" {
				readers--
			}
		case "X":
			if blocked == 0 {
				return false
			}
			blocked--
		case "S":
			shut = true
		case "BN", "BS", "BF":
			blocked++
		case "NOq":
			if readers >= 3 {
				return false
			}
			readers++
		}
	}
	return true
}

func c06Run(seq []string, viaHandler bool) (viol []string, applicable bool, events int64) {
	if !c06Applicable(seq) {
		return nil, false, 0
	}
	w := &c06World{}
	root := w.newInst(true)
	cur := db.NewVerifDB(root)
	curInst := root
	var h *dnsserver.FBDNSDB
	const timeout = time.Millisecond
	vkey := []byte("validation-key")
	if viaHandler {
		var err error
		h, err = dnsserver.NewFBDNSDBBasic(dnsserver.HandlerConfig{}, dnsserver.DBConfig{Path: "initial", Driver: "traced", ReloadTimeout: timeout, ValidationKey: vkey}, dnsserver.CacheConfig{}, &harness.Logger{}, harness.NewStats())
		if err != nil {
			return []string{err.Error()}, true, 0
		}
		h.VerifSetDB(cur)
	}
	var readers []c06Reader
	shut := false
	nreload := 0
	servedInst := func() *tracedDBI { return curInst }
	for _, op := range seq {
		if shut {
			return nil, false, 0 // nothing after shutdown
		}
		switch op {
		case "A":
			if len(readers) >= 3 {
				return nil, false, 0
			}
			var rd db.Reader
			var err error
			if viaHandler {
				rd, err = h.AcquireReader()
			} else {
				rd, err = db.NewReader(cur)
			}
			if err != nil {
				w.violate("acquire failed: %v", err)
				continue
			}
			readers = append(readers, c06Reader{rd, servedInst()})
		case "Uo", "Un", "Ro", "Rn":
			if len(readers) == 0 || (len(readers) == 1 && op[1] == 'n') {
				return nil, false, 0 // symmetric duplicate of the 'o' variant
			}
			i := 0
			if op[1] == 'n' {
				i = len(readers) - 1
			}
			if op[0] == 'U' {
				readers[i].rd.ForEach([]byte("k"), func([]byte) error { return nil })
			} else {
				readers[i].rd.Close()
				readers = append(readers[:i], readers[i+1:]...)
			}
		case "X":
			w.mu.Lock()
			if len(w.blocked) == 0 {
				w.mu.Unlock()
				return nil, false, 0
			}
			blk := w.blocked[0]
			w.blocked = w.blocked[1:]
			w.mu.Unlock()
			close(blk.release)
			<-blk.done
		case "S":
			shut = true
			if viaHandler {
				h.Close()
			} else {
				cur.Destroy()
			}
		case "NOq":
			if !viaHandler {
				return nil, false, 0
			}
			nreload++
			path := fmt.Sprintf("NO#%d-w%d", nreload, atomic.AddInt64(&c06WorldSeq, 1))
			c06InstallHook()
			got := make(chan c06Reader, 1)
			c06Hooks.Store(path, func() {
				// another goroutine asks for a reader right now; in correct code it has to wait for the switch
				go func() {
					rd, err := h.AcquireReader()
					if err != nil {
						got <- c06Reader{}
						return
					}
					rd.ForEach([]byte("k"), func([]byte) error { return nil })
					got <- c06Reader{rd: rd}
				}()
				select {
				case r := <-got:
					got <- r // acquired inside the window: keep it for after the reload
				case <-time.After(2 * time.Millisecond):
				}
			})
			rerr := h.Reload(*dnsserver.NewFullReloadSignal(path))
			c06Hooks.Delete(path)
			if rerr == nil {
				w.mu.Lock()
				curInst = w.byPath[path]
				w.mu.Unlock()
			}
			if r := <-got; r.rd != nil {
				// whichever backend the reader got, it must be the served one by now or stay open until released
				r.inst = servedInst()
				readers = append(readers, r)
			}
		default: // a reload
			nreload++
			path := fmt.Sprintf("%s#%d", op, nreload)
			same := op == "SO" || op == "SV" || op == "BS"
			var rerr error
			if viaHandler {
				rerr = h.Reload(*dnsserver.NewFullReloadSignal(path))
			} else {
				var nd *db.DB
				nd, rerr = cur.Reload(path, vkey, timeout)
				if rerr == nil && nd != cur {
					cur = nd
				}
			}
			var before *tracedDBI = curInst
			// bookkeeping of the served instance: a successful NO switches to the instance this reload created
			// (on a loaded machine even NO can exceed the 1 ms reload timeout; then nothing switches)
			if op == "NO" && rerr == nil {
				// (not "the last instance created": a reload that timed out before its goroutine ran creates its instance late)
				w.mu.Lock()
				curInst = w.byPath[path]
				w.mu.Unlock()
			}
			_ = same
			_ = before
		}
		// online invariant: the served backend and every pinned backend are open
		if !shut {
			if atomic.LoadInt32(&servedInst().closed) != 0 {
				w.violate("served backend #%d is closed after %q", servedInst().id, op)
			}
		}
		for _, rd := range readers {
			if atomic.LoadInt32(&rd.inst.closed) != 0 {
				w.violate("backend #%d closed although a reader still holds it (after %q)", rd.inst.id, op)
			}
		}
	}
	// complete the history: unblock late reloads, shut down, release readers, settle
	if !shut {
		if viaHandler {
			h.Close()
		} else {
			cur.Destroy()
		}
	}
	releaseLate := func() {
		w.mu.Lock()
		late := w.blocked
		w.blocked = nil
		w.mu.Unlock()
		for _, blk := range late {
			close(blk.release)
			<-blk.done
		}
	}
	releaseLate()
	time.Sleep(100 * time.Microsecond) // let the reload goroutines run their epilogue (close of rejected candidates)
	for _, rd := range readers {
		rd.rd.Close()
	}
	// generous: in correct code every instance is closed within microseconds and the loop exits at once;
	// only a real leak waits this long (a loaded machine must not turn scheduling delay into a verdict)
	deadline := time.Now().Add(8 * time.Second)
	for {
		releaseLate() // a reload goroutine that was scheduled late registers its block only now
		allClosed := true
		w.mu.Lock()
		for _, t := range w.insts {
			if atomic.LoadInt32(&t.closes) == 0 {
				allClosed = false
			}
		}
		w.mu.Unlock()
		if allClosed || time.Now().After(deadline) {
			break
		}
		time.Sleep(50 * time.Microsecond)
	}
	w.mu.Lock()
	for _, t := range w.insts {
		if n := atomic.LoadInt32(&t.closes); n != 1 {
			w.viol = append(w.viol, fmt.Sprintf("backend #%d closed %d times by the end of the history (after shutdown and release of all readers)", t.id, n))
		}
	}
	viol = append(viol, w.viol...)
	w.mu.Unlock()
	return viol, true, atomic.LoadInt64(&w.events)
}

// c06DeadlineSweep: n reloads that each open a new backend and finish within +-300 us of the reload timeout, so that
// "the result is ready" and "the caller gave up" happen together in every order the scheduler produces; then shutdown.
// Every backend ever opened must end up closed exactly once (the served one by the shutdown).
func c06DeadlineSweep(n int, seed int64) (viol []string, timeouts, switches int, events int64) {
	w := &c06World{}
	cur := db.NewVerifDB(w.newInst(true))
	const timeout = 2 * time.Millisecond
	rng := rand.New(rand.NewSource(seed))
	for i := 0; i < n; i++ {
		us := 1700 + rng.Intn(600)
		nd, err := cur.Reload(fmt.Sprintf("TN#%d@%d", i, us), nil, timeout)
		if err == nil {
			cur = nd
			switches++
		} else {
			timeouts++
		}
	}
	cur.Destroy()
	deadline := time.Now().Add(8 * time.Second)
	for {
		allClosed := true
		w.mu.Lock()
		for _, t := range w.insts {
			if atomic.LoadInt32(&t.closes) == 0 {
				allClosed = false
			}
		}
		w.mu.Unlock()
		if allClosed || time.Now().After(deadline) {
			break
		}
		time.Sleep(200 * time.Microsecond)
	}
	w.mu.Lock()
	for _, t := range w.insts {
		if c := atomic.LoadInt32(&t.closes); c != 1 && len(w.viol) < 10 {
			w.viol = append(w.viol, fmt.Sprintf("backend #%d (opened by a reload that finished within 300 us of the reload timeout) closed %d times by the end of the history", t.id, c))
		}
	}
	viol = append(viol, w.viol...)
	w.mu.Unlock()
	return viol, timeouts, switches, atomic.LoadInt64(&w.events)
}

// c06AcquireStorm: readers are acquired, used and released through the handler from 4x as many goroutines as CPUs
// while full reloads replace the backend back to back. The instrumented backend records every call made on an
// instance after it was closed, every close during a call and every second close; at the end every backend ever
// opened must be closed exactly once.
func c06AcquireStorm(reloads int) (viol []string, acquires int64, events int64) {
	w := &c06World{}
	cur := db.NewVerifDB(w.newInst(true))
	h, err := dnsserver.NewFBDNSDBBasic(dnsserver.HandlerConfig{}, dnsserver.DBConfig{Path: "initial", Driver: "traced", ReloadTimeout: 10 * time.Second, ValidationKey: []byte("validation-key")}, dnsserver.CacheConfig{}, &harness.Logger{}, harness.NewStats())
	if err != nil {
		return []string{err.Error()}, 0, 0
	}
	h.VerifSetDB(cur)
	old := runtime.GOMAXPROCS(4 * runtime.NumCPU())
	defer runtime.GOMAXPROCS(old)
	var stop int32
	var wg sync.WaitGroup
	for g := 0; g < 4*runtime.NumCPU(); g++ {
		wg.Add(1)
		go func() {
			defer wg.Done()
			for atomic.LoadInt32(&stop) == 0 {
				rd, err := h.AcquireReader()
				if err != nil {
					continue
				}
				rd.ForEach([]byte("k"), func([]byte) error { return nil })
				rd.Close()
				atomic.AddInt64(&acquires, 1)
			}
		}()
	}
	for i := 0; i < reloads; i++ {
		if err := h.Reload(*dnsserver.NewFullReloadSignal(fmt.Sprintf("NO#storm%d", i))); err != nil {
			w.violate("full reload %d failed: %v", i, err)
			break
		}
	}
	atomic.StoreInt32(&stop, 1)
	wg.Wait()
	h.Close()
	deadline := time.Now().Add(8 * time.Second)
	for {
		allClosed := true
		w.mu.Lock()
		for _, t := range w.insts {
			if atomic.LoadInt32(&t.closes) == 0 {
				allClosed = false
			}
		}
		w.mu.Unlock()
		if allClosed || time.Now().After(deadline) {
			break
		}
		time.Sleep(200 * time.Microsecond)
	}
	w.mu.Lock()
	for _, t := range w.insts {
		if c := atomic.LoadInt32(&t.closes); c != 1 && len(w.viol) < 10 {
			w.viol = append(w.viol, fmt.Sprintf("backend #%d closed %d times by the end of the storm", t.id, c))
		}
	}
	viol = append(viol, w.viol...)
	w.mu.Unlock()
	return viol, atomic.LoadInt64(&acquires), atomic.LoadInt64(&w.events)
}

// c06Key names the open-finding predicate a failing sequence satisfies.
func c06Key(seq []string) string {
	// a blocked same-backend reload (BS) still pending when shutdown comes
	pending := 0
	for _, op := range seq {
		switch op {
		case "BS":
			pending++
		case "X":
			if pending > 0 {
				pending--
			}
		case "S":
			if pending > 0 {
				return "slow-same-backend-reload-outlives-shutdown"
			}
		}
	}
	if pending > 0 {
		return "slow-same-backend-reload-outlives-shutdown" // the history is completed with a shutdown
	}
	return ""
}

type c06Case struct {
	Seq        []string `json:"sequence"`
	ViaHandler bool     `json:"via_handler"`
}

func runC06(r *report.Run) {
	r.SetRule("an instrumented backend (open/use/close events per instance, scripted reload outcomes: new-ok NO, same-ok SO, open-error OE, new-without-validation-key NV, same-without-validation-key SV, and blocked-until-released variants BN/BS/BF that exceed the 1 ms reload timeout and finish late) is driven through db.DB directly and through FBDNSDB by ALL operation sequences over {acquire (<=3 readers), use/release oldest|newest reader, the 8 reload outcomes, a new-ok reload during which another goroutine acquires and uses a reader between the return of db.Reload and the switch (verif hook r:reloaded), unblock, shutdown} up to a depth bound (reader-symmetric duplicates and sequences continuing after shutdown are skipped), then by seeded random longer ones; plus sweeps of reloads that open a new backend and finish within 300 us of a 2 ms reload timeout (both outcomes occur, counted); plus a storm: readers acquired, used and released through the handler from 4x NumCPU goroutines (GOMAXPROCS raised accordingly) during 20 000 back-to-back full reloads; every history is completed (late reloads released, shutdown, readers released, goroutines settled). Invariants: no call on a closed instance, no close while a call runs, close count <= 1, served and pinned instances stay open, every instance ever opened is closed exactly once at the end. non-trivial = applicable sequence containing a reload and a reader; distinct by sequence")
	r.Assume("the instrumented backend marks a slow reload as a call in progress on the old backend for its whole duration (as a RocksDB catch-up is)")
	depth := r.Pick(4, 5)
	var cur []string
	var rec func(d int)
	var total, applicable int64
	work := make(chan []string, 256)
	var pool sync.WaitGroup
	run := func(seq []string) {
		if !c06Applicable(seq) {
			atomic.AddInt64(&total, 1)
			return
		}
		work <- append([]string{}, seq...)
	}
	exec := func(seq []string) {
		if r.Violations() >= 20 {
			return // enough witnesses; every further leaking sequence would only wait out the settle deadline
		}
		for _, via := range []bool{false, true} {
			viol, ok, ev := c06Run(seq, via)
			atomic.AddInt64(&total, 1)
			if !ok {
				continue
			}
			atomic.AddInt64(&applicable, 1)
			r.Eval(1)
			r.Count("backend_events", ev)
			hasReload, hasReader := false, false
			for _, op := range seq {
				if (len(op) == 2 && op != "Uo" && op != "Un" && op != "Ro" && op != "Rn") || op == "NOq" {
					hasReload = true
				}
				if op == "A" {
					hasReader = true
				}
			}
			if hasReload && hasReader {
				r.Nontrivial(fmt.Sprintf("%v/%v", seq, via))
			}
			for _, op := range seq {
				if len(op) == 2 && op[0] == 'B' {
					r.Count("sequences_with_timed_out_reload", 1)
					break
				}
			}
			if len(viol) > 0 {
				// "never closed" is the one verdict taken at a wall-clock deadline (8 s after the history was
				// completed). On a machine loaded far beyond its cores that alone must not decide: such a verdict is
				// reported only when the same sequence shows it again in one of 5 further runs (a leak caused by the
				// sequence does so every time; the sweep of reloads finishing at the timeout looks for the rare ones)
				onlyDeadline := true
				for _, v := range viol {
					if !strings.Contains(v, "closed 0 times by the end of the history") {
						onlyDeadline = false
					}
				}
				if onlyDeadline {
					again := false
					for try := 0; try < 5 && !again; try++ {
						if v2, _, _ := c06Run(seq, via); len(v2) > 0 {
							again, viol = true, v2
						}
					}
					if !again {
						r.Count("never_closed_verdicts_at_the_deadline_not_reproduced_in_5_reruns", 1)
						continue
					}
				}
				r.Violation(c06Key(seq), fmt.Sprintf("sequence %v (via handler=%v): %s", seq, via, strings.Join(viol, "; ")), c06Case{Seq: append([]string{}, seq...), ViaHandler: via})
			}
		}
	}
	for g := 0; g < 16; g++ {
		pool.Add(1)
		go func() {
			defer pool.Done()
			for seq := range work {
				exec(seq)
			}
		}()
	}
	rec = func(d int) {
		if len(cur) > 0 {
			// prefixes are covered by their extensions only if they end the same way; run each length explicitly
			run(cur)
		}
		if d == 0 {
			return
		}
		if len(cur) > 0 && cur[len(cur)-1] == "S" {
			return
		}
		for _, op := range c06Ops {
			cur = append(cur, op)
			rec(d - 1)
			cur = cur[:len(cur)-1]
		}
	}
	rec(depth)
	r.Count("exhaustive_depth", int64(depth))
	r.Count("sequences_tried_incl_inapplicable", atomic.LoadInt64(&total))
	r.Set("exhaustive", true)
	r.Set("exhaustive_note", fmt.Sprintf("all sequences up to depth %d over the 16 operations (inapplicable ones skipped)", depth))
	// random longer sequences
	rng := rand.New(rand.NewSource(r.Seed*37 + 6))
	for i := 0; i < r.Pick(3000, 60000); i++ {
		n := depth + 1 + rng.Intn(6)
		seq := make([]string, 0, n)
		for len(seq) < n {
			op := c06Ops[rng.Intn(len(c06Ops))]
			if op == "S" && len(seq) < n-1 {
				continue
			}
			seq = append(seq, op)
		}
		run(seq)
	}
	close(work)
	pool.Wait()
	r.Sample(map[string]interface{}{"example_sequences": [][]string{{"A", "NO", "Uo", "Ro", "S"}, {"BS", "S"}, {"A", "SV", "Uo"}}})
	// reloads finishing right at the reload timeout, 8 sweeps in parallel (more preemption, more orders)
	{
		var swg sync.WaitGroup
		var smu sync.Mutex
		for k := 0; k < 8; k++ {
			swg.Add(1)
			go func(k int) {
				defer swg.Done()
				n := r.Pick(400, 4000)
				seed := r.Seed*1000 + int64(k)
				viol, tmo, sw, ev := c06DeadlineSweep(n, seed)
				smu.Lock()
				defer smu.Unlock()
				r.Eval(1)
				r.Count("backend_events", ev)
				r.Count("deadline_sweep_reloads", int64(n))
				r.Count("deadline_sweep_reloads_timed_out", int64(tmo))
				r.Count("deadline_sweep_reloads_switched", int64(sw))
				if tmo > 0 && sw > 0 {
					r.Nontrivial(fmt.Sprintf("deadline-sweep-%d", seed))
				}
				for _, v := range viol {
					r.Violation("", "reloads finishing at the reload timeout: "+v, c06Case{Seq: []string{"deadline-sweep", fmt.Sprint(n), fmt.Sprint(seed)}})
				}
			}(k)
		}
		swg.Wait()
	}
	// acquire/use/release storm under back-to-back full reloads
	{
		n := r.Pick(20000, 200000)
		viol, acq, ev := c06AcquireStorm(n)
		r.Eval(1)
		r.Count("backend_events", ev)
		r.Count("storm_full_reloads", int64(n))
		r.Count("storm_reader_acquisitions", acq)
		if acq > 0 {
			r.Nontrivial("acquire-storm")
		}
		for _, v := range viol {
			r.Violation("", "readers acquired and released from 4x NumCPU goroutines during back-to-back full reloads: "+v, c06Case{Seq: []string{"acquire-storm", fmt.Sprint(n)}})
		}
	}
	// real backends in a child process: any crash is the violation
	res, err := runChild(false, "c06real", []string{fmt.Sprint(r.Seed), fmt.Sprint(r.Pick(60, 600))}, 20*time.Minute)
	if err != nil {
		r.Inconclusive("real-backend child: " + err.Error())
		return
	}
	if res.Summary != nil {
		if n, ok := res.Summary["sequences"].(float64); ok {
			r.Count("real_backend_sequences", int64(n))
		}
	}
	if res.ExitCode != 0 && !res.TimedOut {
		last := ""
		if len(res.Journal) > 0 {
			last = res.Journal[len(res.Journal)-1]
		}
		r.Violation("", fmt.Sprintf("real backends: process died (exit %d) during sequence %s:\n%s", res.ExitCode, last, firstLines(res.Stderr, 10)), map[string]string{"journal_last": last})
	} else if res.TimedOut {
		r.Inconclusive("real-backend child timed out")
	}
}

// c06RealWorker drives real CDB / RocksDB backends through random histories; a crash is the verdict.
func c06RealWorker(args []string) int {
	var seed int64 = 1
	n := 60
	fmt.Sscan(args[0], &seed)
	fmt.Sscan(args[1], &n)
	rng := rand.New(rand.NewSource(seed))
	count := 0
	for _, b := range harness.Backends {
		for s := 0; s < n/3; s++ {
			l, err := newLab(b, harness.ServerOpts{Cache: rng.Intn(2) == 0}, 3000+s*50)
			if err != nil {
				fmt.Println(err)
				return 2
			}
			var readers []db.Reader
			var ops []string
			for i := 0; i < 4+rng.Intn(8); i++ {
				switch rng.Intn(7) {
				case 0, 1:
					if len(readers) < 3 {
						rd, err := l.srv.H.AcquireReader()
						if err == nil {
							readers = append(readers, rd)
							ops = append(ops, "A")
						}
					}
				case 2:
					if len(readers) > 0 {
						ops = append(ops, "U")
						journal("%s %v", b.Name, ops)
						readers[0].ForEach(validationKey(b), func([]byte) error { return nil })
					}
				case 3:
					if len(readers) > 0 {
						ops = append(ops, "R")
						journal("%s %v", b.Name, ops)
						readers[len(readers)-1].Close()
						readers = readers[:len(readers)-1]
					}
				default:
					k := []string{"full-ok", "partial-ok", "full-missing-path", "full-unreadable", "full-novalidation"}[rng.Intn(5)]
					ops = append(ops, k)
					journal("%s %v", b.Name, ops)
					l.reload(k)
					l.query(1, stampQueries[rng.Intn(len(stampQueries))], "q")
				}
			}
			ops = append(ops, "S")
			journal("%s %v", b.Name, ops)
			for i, rd := range readers {
				if i%2 == 0 {
					rd.ForEach(validationKey(b), func([]byte) error { return nil })
				}
			}
			l.srv.Close()
			l.srv = nil
			for _, rd := range readers {
				rd.ForEach(validationKey(b), func([]byte) error { return nil })
				rd.Close()
			}
			l.close()
			count++
		}
	}
	summary(map[string]interface{}{"sequences": count})
	return 0
}

func replayC06(r *report.Run, raw json.RawMessage) {
	var c c06Case
	if err := json.Unmarshal(raw, &c); err != nil || len(c.Seq) == 0 {
		r.Inconclusive("unrecognised replay file")
		return
	}
	var viol []string
	if c.Seq[0] == "acquire-storm" && len(c.Seq) == 2 {
		var n int
		fmt.Sscan(c.Seq[1], &n)
		for try := 0; try < 3 && len(viol) == 0; try++ {
			viol, _, _ = c06AcquireStorm(n)
		}
	} else if c.Seq[0] == "deadline-sweep" && len(c.Seq) == 3 {
		var n int
		var seed int64
		fmt.Sscan(c.Seq[1], &n)
		fmt.Sscan(c.Seq[2], &seed)
		for try := 0; try < 5 && len(viol) == 0; try++ { // schedule dependent: a few attempts
			viol, _, _, _ = c06DeadlineSweep(n, seed)
		}
	} else if n, _ := strconv.Atoi(os.Getenv("VERIF_REPLAY_REPEAT")); n > 1 {
		// schedule-dependent findings: repeat the sequence n times on 16 goroutines
		var mu sync.Mutex
		var wg sync.WaitGroup
		for g := 0; g < 16; g++ {
			wg.Add(1)
			go func() {
				defer wg.Done()
				for i := 0; i < n/16+1; i++ {
					v, _, _ := c06Run(c.Seq, c.ViaHandler)
					if len(v) > 0 {
						mu.Lock()
						viol = append(viol, v...)
						mu.Unlock()
						return
					}
				}
			}()
		}
		wg.Wait()
	} else {
		viol, _, _ = c06Run(c.Seq, c.ViaHandler)
	}
	for _, v := range viol {
		fmt.Println(v)
	}
	if len(viol) > 0 {
		r.Violation("", strings.Join(viol, "; "), c)
	}
}
