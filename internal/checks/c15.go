package checks

import (
	"encoding/json"
	"fmt"
	"math/rand"
	"os"
	"path/filepath"
	"sort"
	"strings"
	"sync"
	"sync/atomic"
	"time"

	"github.com/anishathalye/porcupine"
	"github.com/facebookincubator/dns/dnsrocks/dnsdata/rdb"

	"verif/internal/harness"
	"verif/internal/report"
)

func init() {
	register("C15", "exploration", runC15, replayC15)
}

// one primitive operation
type c15Op struct {
	Del bool   `json:"del,omitempty"`
	K   string `json:"k"`
	V   string `json:"v"`
}

// a step is a single op (len 1, Batch false) or a batch
type c15Step struct {
	Batch bool    `json:"batch,omitempty"`
	Ops   []c15Op `json:"ops"`
}

type c15History struct {
	Steps []c15Step `json:"steps"`
	Keys  []string  `json:"keys"` // alphabet read back after every step
}

// model: key -> list of values; ordered[k]==false when stored order is unspecified
type c15Model struct {
	m       map[string][]string
	ordered map[string]bool
}

func newC15Model() *c15Model { return &c15Model{m: map[string][]string{}, ordered: map[string]bool{}} }

func (m *c15Model) clone() *c15Model {
	c := newC15Model()
	for k, v := range m.m {
		c.m[k] = append([]string{}, v...)
	}
	for k, v := range m.ordered {
		c.ordered[k] = v
	}
	return c
}

func (m *c15Model) isOrdered(k string) bool {
	o, ok := m.ordered[k]
	return !ok || o
}

func (m *c15Model) add(k, v string) { m.m[k] = append(m.m[k], v) }

func (m *c15Model) del(k, v string) bool {
	l := m.m[k]
	for i, x := range l {
		if x == v {
			l = append(l[:i:i], l[i+1:]...)
			if len(l) == 0 {
				delete(m.m, k)
				delete(m.ordered, k)
			} else {
				m.m[k] = l
			}
			return true
		}
	}
	return false
}

// apply returns whether the step must succeed; on failure the model is unchanged.
func (m *c15Model) apply(s c15Step) bool {
	if !s.Batch {
		o := s.Ops[0]
		if o.Del {
			return m.del(o.K, o.V)
		}
		m.add(o.K, o.V)
		return true
	}
	c := m.clone()
	adds := map[string]int{}
	for _, o := range s.Ops {
		if !o.Del {
			c.add(o.K, o.V)
			adds[o.K]++
		}
	}
	for _, o := range s.Ops {
		if o.Del {
			if !c.del(o.K, o.V) {
				return false
			}
		}
	}
	for k, n := range adds {
		if n >= 2 {
			if _, ok := c.m[k]; ok {
				c.ordered[k] = false // the batch sorts by key with an unstable sort
			}
		}
	}
	m.m, m.ordered = c.m, c.ordered
	return true
}

func c15Read(db *rdb.RDB, key []byte) (vals []string, first string, hasFirst bool, err error) {
	err = db.ForEach(key, func(v []byte) error {
		vals = append(vals, string(v))
		return nil
	}, rdb.NewContext())
	if err != nil {
		return
	}
	f, ferr := db.Find(key, rdb.NewContext())
	if ferr == nil {
		first, hasFirst = string(f), true
	}
	return
}

func c15Compare(db *rdb.RDB, ns string, keys []string, m *c15Model) string {
	for _, k := range keys {
		got, first, hasFirst, err := c15Read(db, []byte(ns+k))
		if err != nil {
			return fmt.Sprintf("reading key %q: %v", k, err)
		}
		want := m.m[k]
		if len(got) != len(want) {
			return fmt.Sprintf("key %q holds %d values %q, model %d values %q", k, len(got), got, len(want), want)
		}
		if hasFirst != (len(want) > 0) {
			return fmt.Sprintf("key %q: Find found=%v, model has %d values", k, hasFirst, len(want))
		}
		if m.isOrdered(k) {
			for i := range want {
				if got[i] != want[i] {
					return fmt.Sprintf("key %q holds %q, model %q", k, got, want)
				}
			}
			if hasFirst && first != want[0] {
				return fmt.Sprintf("key %q: Find returned %q, first value is %q", k, first, want[0])
			}
		} else {
			g, w := append([]string{}, got...), append([]string{}, want...)
			sort.Strings(g)
			sort.Strings(w)
			for i := range w {
				if g[i] != w[i] {
					return fmt.Sprintf("key %q holds (sorted) %q, model %q", k, g, w)
				}
			}
		}
	}
	return ""
}

// c15RunHistory executes one history under namespace ns and compares with the model after each step.
func c15RunHistory(db *rdb.RDB, ns string, h c15History) string {
	m := newC15Model()
	for i, s := range h.Steps {
		wantOK := m.apply(s)
		var err error
		if !s.Batch {
			o := s.Ops[0]
			if o.Del {
				err = db.Del([]byte(ns+o.K), []byte(o.V))
			} else {
				err = db.Add([]byte(ns+o.K), []byte(o.V))
			}
		} else {
			b := db.CreateBatch()
			for _, o := range s.Ops {
				if o.Del {
					b.Del([]byte(ns+o.K), []byte(o.V))
				} else {
					b.Add([]byte(ns+o.K), []byte(o.V))
				}
			}
			err = db.ExecuteBatch(b)
		}
		if (err == nil) != wantOK {
			return fmt.Sprintf("step %d %s: error=%v but the model says success=%v", i, c15StepString(s), err, wantOK)
		}
		if msg := c15Compare(db, ns, h.Keys, m); msg != "" {
			return fmt.Sprintf("after step %d %s: %s", i, c15StepString(s), msg)
		}
	}
	return ""
}

func c15StepString(s c15Step) string {
	var p []string
	for _, o := range s.Ops {
		op := "Add"
		if o.Del {
			op = "Del"
		}
		v := o.V
		if len(v) > 20 {
			v = fmt.Sprintf("%s…(%d bytes)", v[:20], len(v))
		}
		p = append(p, fmt.Sprintf("%s(%q,%q)", op, o.K, v))
	}
	if s.Batch {
		return "Batch[" + strings.Join(p, " ") + "]"
	}
	return p[0]
}

var c15Keys = []string{"", "a", "ab"}
var c15Vals = []string{"", "x", "xy", "x\x00"}

func c15Singles() []c15Op {
	var ops []c15Op
	for _, del := range []bool{false, true} {
		for _, k := range c15Keys {
			for _, v := range c15Vals {
				ops = append(ops, c15Op{Del: del, K: k, V: v})
			}
		}
	}
	return ops
}

func c15OpenFresh(dir string) (*rdb.RDB, error) {
	os.RemoveAll(dir)
	if err := os.MkdirAll(dir, 0o755); err != nil {
		return nil, err
	}
	return rdb.NewRDB(dir)
}

func runC15(r *report.Run) {
	r.SetRule("histories of Add/Del/ExecuteBatch against a real RocksDB store (rdb.NewRDB in a scratch directory, each history in its own key namespace) compared after every step with a map-of-lists model by reading every key of the alphabet (ForEach + Find): exhaustive single-op histories up to a length bound over keys {\"\",a,ab} x values {\"\",x,xy,x\\0}; every 2-op batch after every 1-op prefix; seeded random long histories with batches of 1-6 ops, duplicated keys, values up to 70 kB and values that are prefixes of each other; backup->restore dump equality, also after the history went on and 1-3 further backups were taken into the same backup directory; concurrent clients checked per key with porcupine. non-trivial = history containing a Del of a present value or a batch; distinct by content")
	r.Assume("ordered comparison except for keys that received >=2 additions inside one batch (the batch sorts with an unstable sort, the statement promises a multiset there)")
	base := filepath.Join(harness.Scratch(), "c15")
	db, err := c15OpenFresh(filepath.Join(base, "main"))
	if err != nil {
		r.Inconclusive("cannot create store: " + err.Error())
		return
	}
	nsN := 0
	run := func(h c15History) {
		nsN++
		ns := fmt.Sprintf("h%d/", nsN)
		msg := c15RunHistory(db, ns, h)
		r.Eval(1)
		nontriv := false
		m := newC15Model()
		for _, s := range h.Steps {
			pre := m.clone()
			ok := m.apply(s)
			if s.Batch {
				nontriv = true
				r.Count("batch_steps", 1)
				if !ok {
					r.Count("failing_batches", 1)
				}
			} else if s.Ops[0].Del {
				if ok {
					nontriv = true
					r.Count("successful_deletes", 1)
				} else {
					r.Count("failing_deletes", 1)
				}
			}
			_ = pre
		}
		if nontriv {
			b, _ := json.Marshal(h.Steps)
			r.Nontrivial(string(b))
		}
		if msg != "" {
			r.Violation("", msg, h)
		}
	}
	singles := c15Singles()
	// exhaustive single-op histories
	depth := r.Pick(3, 4)
	var rec func(prefix []c15Step, d int)
	rec = func(prefix []c15Step, d int) {
		if d == 0 {
			run(c15History{Steps: append([]c15Step{}, prefix...), Keys: c15Keys})
			return
		}
		for _, o := range singles {
			rec(append(prefix, c15Step{Ops: []c15Op{o}}), d-1)
		}
	}
	// only full-depth histories are needed: every shorter one is a prefix and is checked step by step
	rec(nil, depth)
	r.Count("exhaustive_depth", int64(depth))
	// every 2-op batch after every 1-op prefix (and after the empty prefix)
	for pi := -1; pi < len(singles); pi++ {
		for _, a := range singles {
			for _, b := range singles {
				var steps []c15Step
				if pi >= 0 {
					if singles[pi].Del {
						continue
					}
					steps = append(steps, c15Step{Ops: []c15Op{singles[pi]}})
				}
				steps = append(steps, c15Step{Batch: true, Ops: []c15Op{a, b}})
				run(c15History{Steps: steps, Keys: c15Keys})
			}
		}
	}
	r.Set("exhaustive_parts", "single-op histories of the stated depth; all 2-op batches after each 1-op Add prefix")
	// random long histories
	rng := rand.New(rand.NewSource(r.Seed*15485863 + 15))
	keys := []string{"", "a", "ab", "abc", "b", "\x00", "a\x00", "zz"}
	nh := r.Pick(300, 5000)
	for i := 0; i < nh; i++ {
		var vals []string
		for j := 0; j < 6; j++ {
			l := rng.Intn(8)
			switch rng.Intn(30) {
			case 0:
				l = 70000 + rng.Intn(100)
			case 1:
				l = 4096 + rng.Intn(3)
			}
			b := make([]byte, l)
			for x := range b {
				b[x] = "xy\x00"[rng.Intn(3)] // tiny alphabet: many values are prefixes of each other
			}
			vals = append(vals, string(b))
		}
		vals = append(vals, "", "x", "xx", "xxx")
		var steps []c15Step
		live := map[string][]string{}
		n := 5 + rng.Intn(40)
		for j := 0; j < n; j++ {
			mkop := func() c15Op {
				k := keys[rng.Intn(len(keys))]
				if rng.Intn(5) < 2 && len(live[k]) > 0 { // delete something probably present
					return c15Op{Del: true, K: k, V: live[k][rng.Intn(len(live[k]))]}
				}
				if rng.Intn(8) == 0 {
					return c15Op{Del: true, K: k, V: vals[rng.Intn(len(vals))]}
				}
				v := vals[rng.Intn(len(vals))]
				live[k] = append(live[k], v)
				return c15Op{K: k, V: v}
			}
			if rng.Intn(3) == 0 {
				s := c15Step{Batch: true}
				for x := 1 + rng.Intn(6); x > 0; x-- {
					s.Ops = append(s.Ops, mkop())
				}
				steps = append(steps, s)
			} else {
				steps = append(steps, c15Step{Ops: []c15Op{mkop()}})
			}
		}
		run(c15History{Steps: steps, Keys: keys})
		if i < 2 {
			var ss []string
			for _, s := range steps {
				ss = append(ss, c15StepString(s))
			}
			r.Sample(ss)
		}
	}
	r.Count("random_histories", int64(nh))
	if err := db.Close(); err != nil {
		r.Violation("", "Close: "+err.Error(), nil)
	}

	// the true empty key and backup/restore in a dedicated store
	c15Backup(r, base, rng)
	// concurrent clients + porcupine
	c15Concurrent(r, base, rng)
	os.RemoveAll(base)
}

func c15Backup(r *report.Run, base string, rng *rand.Rand) {
	for round := 0; round < r.Pick(4, 20); round++ {
		dir := filepath.Join(base, fmt.Sprintf("bk-src-%d", round))
		bdir := filepath.Join(base, fmt.Sprintf("bk-%d", round))
		os.RemoveAll(dir)
		os.RemoveAll(bdir)
		os.MkdirAll(dir, 0o755)
		os.MkdirAll(bdir, 0o755)
		model := harness.Dump{}
		serial := 0
		// the history goes on between backups: every generation is backed up into the SAME backup directory and a
		// restore must give the store as of the latest backup
		gens := 1 + round%4
		for g := 0; g < gens; g++ {
			db, err := rdb.NewRDB(dir)
			if err != nil {
				r.Inconclusive(err.Error())
				return
			}
			n := 1 + rng.Intn(400)
			if round == 0 {
				n = 0 // empty store
			}
			for i := 0; i < n; i++ {
				k := fmt.Sprintf("k%d", rng.Intn(n/3+1))
				if rng.Intn(20) == 0 {
					k = ""
				}
				serial++
				v := fmt.Sprintf("v%d-%s", serial, strings.Repeat("p", rng.Intn(50)))
				if err := db.Add([]byte(k), []byte(v)); err != nil {
					r.Violation("", "Add: "+err.Error(), nil)
				}
				model[k] = append(model[k], v)
			}
			// delete a few
			for k, vs := range model {
				if rng.Intn(4) == 0 {
					v := vs[rng.Intn(len(vs))]
					if err := db.Del([]byte(k), []byte(v)); err != nil {
						r.Violation("", "Del of present value: "+err.Error(), nil)
					}
					for i, x := range vs {
						if x == v {
							vs = append(vs[:i:i], vs[i+1:]...)
							break
						}
					}
					if len(vs) == 0 {
						delete(model, k)
					} else {
						model[k] = vs
					}
				}
			}
			if err := db.Close(); err != nil {
				r.Violation("", "Close: "+err.Error(), nil)
			}
			r.Eval(1)
			rdir := filepath.Join(base, fmt.Sprintf("bk-restored-%d-%d", round, g))
			os.RemoveAll(rdir)
			os.MkdirAll(rdir, 0o755)
			where := map[string]int{"round": round, "generation": g, "keys": len(model)}
			if err := rdb.Backup(dir, bdir); err != nil {
				r.Violation("", fmt.Sprintf("Backup #%d of a store with %d keys failed: %v", g+1, len(model), err), where)
				break
			}
			if err := rdb.Restore(rdir, bdir); err != nil {
				r.Violation("", fmt.Sprintf("Restore after backup #%d failed: %v", g+1, err), where)
				break
			}
			src, err1 := harness.DumpRDB(dir)
			dst, err2 := harness.DumpRDB(rdir)
			if err1 != nil || err2 != nil {
				r.Violation("", fmt.Sprintf("dump after backup/restore: %v %v", err1, err2), nil)
				break
			}
			if d := harness.DiffMultiset(src, model); d != "" {
				r.Violation("", "store differs from the model before backup: "+d, nil)
			}
			if d := harness.DiffMultiset(dst, src); d != "" {
				r.Violation("", fmt.Sprintf("store restored after backup #%d into the same backup directory differs from the source: %s", g+1, d), where)
			}
			for k := range model {
				for i := range model[k] {
					if i < len(dst[k]) && dst[k][i] != model[k][i] {
						r.Violation("", fmt.Sprintf("restored store: key %q value order differs", k), nil)
					}
				}
			}
			r.Count("backup_restore_rounds", 1)
			if g > 0 {
				r.Count("restores_after_a_later_backup_into_the_same_directory", 1)
			}
			r.Count("backup_keys", int64(len(model)))
			r.Nontrivial(fmt.Sprintf("backup-%d-%d-%d", round, g, len(model)))
			os.RemoveAll(rdir)
		}
		os.RemoveAll(dir)
		os.RemoveAll(bdir)
	}
}

// ---- concurrent clients, per-key linearizability with porcupine ----

type c15In struct {
	Kind string // add, del, read, batch
	Key  string
	Val  string   // add/del
	Adds []string // batch
	Dels []string // batch
}
type c15Out struct {
	OK   bool
	Vals []string // read
}

func c15PorcModel() porcupine.Model {
	return porcupine.Model{
		Partition: func(h []porcupine.Operation) [][]porcupine.Operation {
			by := map[string][]porcupine.Operation{}
			var order []string
			for _, o := range h {
				k := o.Input.(c15In).Key
				if _, ok := by[k]; !ok {
					order = append(order, k)
				}
				by[k] = append(by[k], o)
			}
			var out [][]porcupine.Operation
			for _, k := range order {
				out = append(out, by[k])
			}
			return out
		},
		Init: func() interface{} { return "" },
		// state: values joined by \x01, kept sorted (multiset)
		Step: func(st, in, out interface{}) (bool, interface{}) {
			s := st.(string)
			var vals []string
			if s != "" {
				vals = strings.Split(s, "\x01")
			}
			i, o := in.(c15In), out.(c15Out)
			remove := func(v string) bool {
				for x, y := range vals {
					if y == v {
						vals = append(vals[:x:x], vals[x+1:]...)
						return true
					}
				}
				return false
			}
			switch i.Kind {
			case "add":
				if !o.OK {
					return false, st
				}
				vals = append(vals, i.Val)
			case "del":
				present := remove(i.Val)
				if present != o.OK {
					return false, st
				}
			case "batch":
				tmp := append([]string{}, vals...)
				vals = append(vals, i.Adds...)
				ok := true
				for _, d := range i.Dels {
					if !remove(d) {
						ok = false
						break
					}
				}
				if ok != o.OK {
					return false, st
				}
				if !ok {
					vals = tmp
				}
			case "read":
				g := append([]string{}, o.Vals...)
				sort.Strings(g)
				w := append([]string{}, vals...)
				sort.Strings(w)
				return strings.Join(g, "\x01") == strings.Join(w, "\x01"), st
			}
			sort.Strings(vals)
			return true, strings.Join(vals, "\x01")
		},
		DescribeOperation: func(in, out interface{}) string {
			return fmt.Sprintf("%+v -> %+v", in, out)
		},
	}
}

func c15Concurrent(r *report.Run, base string, rng *rand.Rand) {
	rounds := r.Pick(6, 60)
	for round := 0; round < rounds; round++ {
		dir := filepath.Join(base, fmt.Sprintf("conc-%d", round))
		db, err := c15OpenFresh(dir)
		if err != nil {
			r.Inconclusive(err.Error())
			return
		}
		keys := []string{"p", "q", "r"}
		nclients := 6
		opsPer := 25
		var mu sync.Mutex
		var ops []porcupine.Operation
		var uniq int64
		t0 := time.Now()
		var wg sync.WaitGroup
		seeds := make([]int64, nclients)
		for i := range seeds {
			seeds[i] = rng.Int63()
		}
		for c := 0; c < nclients; c++ {
			wg.Add(1)
			go func(c int) {
				defer wg.Done()
				lr := rand.New(rand.NewSource(seeds[c]))
				var mine []string // values this client added (key\x00val)
				for n := 0; n < opsPer; n++ {
					k := keys[lr.Intn(len(keys))]
					in := c15In{Key: k}
					var out c15Out
					newv := func() string { return fmt.Sprintf("c%d-%d", c, atomic.AddInt64(&uniq, 1)) }
					switch x := lr.Intn(10); {
					case x < 4:
						in.Kind, in.Val = "add", newv()
					case x < 6:
						in.Kind = "del"
						in.Val = fmt.Sprintf("c%d-%d", lr.Intn(nclients), 1+lr.Int63n(atomic.LoadInt64(&uniq)+1))
						if len(mine) > 0 && lr.Intn(2) == 0 {
							kv := strings.SplitN(mine[lr.Intn(len(mine))], "\x00", 2)
							in.Key, in.Val = kv[0], kv[1]
						}
					case x < 8:
						in.Kind = "read"
					default:
						in.Kind = "batch"
						for a := lr.Intn(3); a >= 0; a-- {
							in.Adds = append(in.Adds, newv())
						}
						if lr.Intn(2) == 0 && len(in.Adds) > 0 {
							in.Dels = append(in.Dels, in.Adds[0]) // delete what the same batch adds
						}
						if lr.Intn(4) == 0 {
							in.Dels = append(in.Dels, "never-added")
						}
					}
					call := time.Since(t0).Nanoseconds()
					switch in.Kind {
					case "add":
						out.OK = db.Add([]byte(in.Key), []byte(in.Val)) == nil
						if out.OK {
							mine = append(mine, in.Key+"\x00"+in.Val)
						}
					case "del":
						out.OK = db.Del([]byte(in.Key), []byte(in.Val)) == nil
					case "read":
						vals, _, _, err := c15Read(db, []byte(in.Key))
						out.OK, out.Vals = err == nil, vals
					case "batch":
						b := db.CreateBatch()
						for _, v := range in.Adds {
							b.Add([]byte(in.Key), []byte(v))
						}
						for _, v := range in.Dels {
							b.Del([]byte(in.Key), []byte(v))
						}
						out.OK = db.ExecuteBatch(b) == nil
					}
					ret := time.Since(t0).Nanoseconds()
					mu.Lock()
					ops = append(ops, porcupine.Operation{ClientId: c, Input: in, Call: call, Output: out, Return: ret})
					mu.Unlock()
				}
			}(c)
		}
		wg.Wait()
		db.Close()
		os.RemoveAll(dir)
		res, info := porcupine.CheckOperationsVerbose(c15PorcModel(), ops, 60*time.Second)
		r.Eval(1)
		r.Count("concurrent_histories", 1)
		r.Count("concurrent_operations", int64(len(ops)))
		r.Nontrivial(fmt.Sprintf("conc-%d-%d", round, len(ops)))
		switch res {
		case porcupine.Ok:
		case porcupine.Unknown:
			r.Count("porcupine_timeouts", 1)
		case porcupine.Illegal:
			_ = info
			var desc []string
			for _, o := range ops {
				desc = append(desc, fmt.Sprintf("client %d [%d,%d] %+v -> %+v", o.ClientId, o.Call, o.Return, o.Input, o.Output))
			}
			r.Violation("", "concurrent Add/Del/Batch/read history is not linearizable per key", map[string]interface{}{"history": desc})
		}
	}
}

func replayC15(r *report.Run, raw json.RawMessage) {
	var h c15History
	if err := json.Unmarshal(raw, &h); err != nil || len(h.Steps) == 0 {
		fmt.Println("this replay file holds a recorded concurrent history or backup round; re-run the check with the same VERIF_SEED")
		r.Violation("", "recorded (not re-executable) case", nil)
		return
	}
	db, err := c15OpenFresh(filepath.Join(harness.Scratch(), "c15-replay"))
	if err != nil {
		r.Inconclusive(err.Error())
		return
	}
	defer db.Close()
	if msg := c15RunHistory(db, "replay/", h); msg != "" {
		fmt.Println(msg)
		r.Violation("", msg, h)
	}
}
