package checks

import (
	"encoding/json"
	"fmt"
	"math/rand"
	"strings"
	"time"

	"github.com/miekg/dns"

	"verif/internal/gen"
	"verif/internal/harness"
	"verif/internal/model"
	"verif/internal/report"
)

func init() {
	register("C12", "exploration", runC12, replayC12)
	Workers["c12sched"] = c12SchedWorker
	Workers["c12stress"] = c12StressWorker
}

type c12Case struct {
	WorldSeed int64      `json:"world_seed"`
	Backend   string     `json:"backend"`
	History   []c02Query `json:"history"` // queries sent so far, the last one differs
	Cached    string     `json:"with_cache"`
	Plain     string     `json:"without_cache"`
}

// c12History builds a query history with many repeats of few keys seen from different angles.
func c12History(w *gen.World, rng *rand.Rand, n int) []c02Query {
	base := w.Queries(rng, 40)
	clients := w.Clients(rng)
	var out []c02Query
	// the longest declared names, asked over UDP without EDNS in one spelling and then in another: a cached answer that
	// keeps the first spelling does not compress against the second question and no longer fits 512 bytes
	for _, o := range w.Owners {
		if len(o) < 200 {
			continue
		}
		for _, t := range []uint16{dns.TypeA, dns.TypeTXT, dns.TypeAAAA} {
			lower := c02Query{Name: gen.Presentation(o), Type: t, Class: dns.ClassINET, IP: clients[0].IP}
			upper := lower
			upper.Name = strings.ToUpper(lower.Name)
			out = append(out, lower, upper, lower)
		}
	}
	for len(out) < n {
		b := base[rng.Intn(len(base))]
		name := gen.Presentation(b.Name)
		switch rng.Intn(4) {
		case 0:
			name = strings.ToUpper(name)
		case 1:
			bs := []byte(name)
			for i := range bs {
				if bs[i] >= 'a' && bs[i] <= 'z' && rng.Intn(2) == 0 {
					bs[i] -= 32
				}
			}
			name = string(bs)
		}
		t := b.Type
		if rng.Intn(4) == 0 {
			t = []uint16{dns.TypeA, dns.TypeAAAA, dns.TypeTXT, dns.TypeNS, dns.TypeSOA, dns.TypeMX, dns.TypeANY, dns.TypeDS}[rng.Intn(8)]
		}
		q := c02FromClient(name, t, clients[rng.Intn(len(clients))], rng)
		if rng.Intn(10) == 0 {
			q.EDNS, q.Size = true, 512
		}
		out = append(out, q)
		// the same question again over TCP and with a large buffer (an entry populated by a reply that was truncated
		// for its client must not be what later clients with room get)
		if rng.Intn(6) == 0 {
			a, b2 := q, q
			a.TCP = true
			b2.EDNS, b2.Size, b2.TCP = true, 4096, false
			out = append(out, a, b2)
		}
		// the same question again with an EDNS version the server does not support (BADVERS whatever the cache holds)
		if rng.Intn(8) == 0 {
			v := q
			v.EDNS, v.EVer = true, uint8(1+rng.Intn(255))
			out = append(out, v)
		}
		// immediate repeats and near repeats: same key again, from another client / with other EDNS
		for rng.Intn(2) == 0 {
			q2 := c02FromClient(name, t, clients[rng.Intn(len(clients))], rng)
			if rng.Intn(3) == 0 {
				q2 = q
			}
			out = append(out, q2)
		}
	}
	return out
}

func c12Answer(sv *harness.Server, q c02Query, maxAns int) string {
	res := sv.Serve(q.Msg(), harness.NewWriter(q.IP, q.TCP), maxAns)
	if res.Panic != "" {
		return "PANIC " + res.Panic
	}
	if res.Msg == nil {
		return fmt.Sprintf("NO-RESPONSE rcode=%d", res.Rcode)
	}
	return harness.CanonMsg(res.Msg).Full(false)
}

func runC12(r *report.Run) {
	r.SetRule("(a) for generated files on CDB / RocksDB v1 / v2, two handlers over the same database - response cache on and off - are fed the same generated query history (few keys asked again and again from clients of different locations, with other types/classes, with and without EDNS/ECS/DO/size, TCP, case variants, negative and positive answers) and every pair of responses is compared canonically (owner case ignored; address answers with max-answer >= candidates). (b) generation-stamped databases with the cache on: a query parked at each point between reader acquisition and the cache insertion while a full or partial reload completes, then resumed; later queries for the same key (positive, NXDOMAIN, referral, wildcard entries) must carry the new generation; plus free-running queries during reloads. non-trivial (a) = response served from the cache (hit counter moved), (b) = scenario whose parked query really inserted after the purge point; distinct by (file, history position) / hook-point sequence")
	r.Assume("WRSTimeout 0 (weighted answers are not cached); cached and uncached handlers share nothing but the database file")
	nworlds := r.Pick(25, 800)
	for i := 0; i < nworlds; i++ {
		seed := r.Seed*29000039 + int64(i)
		w := gen.GenWorld(rand.New(rand.NewSource(seed)), gen.WorldOpts{Layout: -1})
		rng := rand.New(rand.NewSource(seed ^ 0xcac4e))
		text := w.Text()
		cached, err1 := openAll(text, harness.ServerOpts{Cache: true})
		r.Eval(1)
		if err1 != nil {
			r.Violation("", "file rejected: "+err1.Error(), c12Case{WorldSeed: seed})
			continue
		}
		plain, err2 := openAll(text, harness.ServerOpts{})
		if err2 != nil {
			cached.close()
			r.Violation("", "file rejected: "+err2.Error(), c12Case{WorldSeed: seed})
			continue
		}
		hist := c12History(w, rng, r.Pick(300, 600))
		maxAns := model.NewIndex(w.Recs).MaxCandidates() + 1
		for bi := range cached.srv {
			for hi, q := range hist {
				hitsBefore := cached.srv[bi].Stats.Snapshot()["DNS_cache.hit"]
				a := c12Answer(cached.srv[bi], q, maxAns)
				b := c12Answer(plain.srv[bi], q, maxAns)
				r.Count("response_pairs", 1)
				if cached.srv[bi].Stats.Snapshot()["DNS_cache.hit"] > hitsBefore {
					r.Count("served_from_cache", 1)
					r.Nontrivial(fmt.Sprintf("%d/%s/%d", seed, cached.srv[bi].B.Name, hi))
				}
				if a != b {
					h := hist[:hi+1]
					if len(h) > 40 {
						h = h[len(h)-40:]
					}
					r.Violation("", fmt.Sprintf("%s: query #%d %+v answered differently with the cache on:\n--- cache on\n%s\n--- cache off\n%s", cached.srv[bi].B.Name, hi, q, a, b),
						c12Case{WorldSeed: seed, Backend: cached.srv[bi].B.Name, History: h, Cached: a, Plain: b})
					break
				}
			}
		}
		if i == 0 {
			b, _ := json.Marshal(hist[:4])
			r.Sample(map[string]interface{}{"history_head": json.RawMessage(b), "history_len": len(hist)})
		}
		cached.close()
		plain.close()
		if r.Violations() >= 10 {
			break
		}
	}
	// (b) reload part
	for _, b := range harness.Backends {
		res, err := runChild(false, "c12sched", []string{b.Name, r.Tier}, 30*time.Minute)
		if err != nil || res.Summary == nil {
			r.Inconclusive(fmt.Sprintf("%s: scheduler child failed: %v exit %d", b.Name, err, res.ExitCode))
			continue
		}
		var sum c05SchedSummary
		bs, _ := json.Marshal(res.Summary)
		json.Unmarshal(bs, &sum)
		r.Eval(sum.Evaluations)
		for k, v := range sum.Counts {
			r.Count(k, v)
		}
		for _, t := range sum.Traces {
			r.Nontrivial(t)
		}
		for _, smp := range sum.Samples {
			if r.SampleN() < 4 {
				r.Sample(smp)
			}
		}
		for _, in := range sum.Inconclusive {
			r.Inconclusive(in)
		}
		for _, v := range sum.Violations {
			r.Violation(v.Key, v.What, v.Scenario)
		}
	}
	for _, b := range harness.Backends {
		res, err := runChild(true, "c12stress", []string{b.Name, fmt.Sprint(r.Seed), fmt.Sprint(r.Pick(15, 60))}, 20*time.Minute)
		if err != nil || res.Summary == nil {
			r.Inconclusive(fmt.Sprintf("%s: stress child failed: %v", b.Name, err))
			continue
		}
		if q, ok := res.Summary["queries"].(float64); ok {
			r.Count("stress_queries", int64(q))
		}
		if q, ok := res.Summary["cache_hits"].(float64); ok {
			r.Count("stress_cache_hits", int64(q))
		}
		if vs, ok := res.Summary["violations"].([]interface{}); ok {
			for _, v := range vs {
				m, _ := v.(map[string]interface{})
				key, _ := m["Key"].(string)
				r.Violation(key, fmt.Sprintf("%s stress with cache: rule (%v) %v", b.Name, m["Rule"], m["What"]), m)
			}
		}
	}
}

// c12Stale is C12's own rule: a query that starts after a successful reload has returned
// must not carry any stamp older than that reload's generation (the other rules are C05's).
func c12Stale(ev []histEvent, initial int) []histViolation {
	var out []histViolation
	for _, q := range ev {
		if q.Kind != "query" || q.NoResp {
			continue
		}
		lower := initial
		for _, r := range ev {
			if r.Kind == "reload" && r.OK && r.Return < q.Call && r.Target > lower {
				lower = r.Target
			}
		}
		for _, s := range q.Stamps {
			if s < lower {
				out = append(out, histViolation{Rule: "stale", What: fmt.Sprintf("client %d %s started after the reload to generation %d had returned but its response carries generation %d (stamps %v)", q.Client, q.Q, lower, s, q.Stamps)})
				break
			}
		}
	}
	return out
}

// c12SchedWorker: cache on; Q1 parked at every point up to the insertion; full/partial reloads to completion
// or parked after the purge; every kind of cache entry.
func c12SchedWorker(args []string) int {
	bname, tier := args[0], args[1]
	sum := c05SchedSummary{Counts: map[string]int64{}}
	seen := map[string]bool{}
	points := []string{"q:acquired", "q:located", "q:authchecked", "q:answered", "q:additional", "q:precache"}
	stops := []string{"done", "r:purged", "r:swapped"}
	kinds := []string{"full-ok", "partial-ok"}
	n := 0
	for _, k := range kinds {
		for _, qp := range points {
			for _, st := range stops {
				for qi := range stampQueries {
					n++
					if tier != "thorough" && n%2 == int(report.Seed()%2) {
						continue
					}
					sc := c05Scenario{Backend: bname, Cache: true, QueryPoint: qp, ReloadStop: st, ReloadKind: k, Query: qi}
					journal("%+v", sc)
					ev, initial, trace, bb, incon, err := c05RunScenario(sc)
					sum.Evaluations++
					if err != nil {
						sum.Inconclusive = append(sum.Inconclusive, fmt.Sprintf("%+v: %v", sc, err))
						continue
					}
					if incon != "" {
						sum.Counts["c12_point_not_on_path"]++
						continue
					}
					sum.Counts["c12_scheduled_scenarios"]++
					sum.Counts["c12_entry_"+strings.ReplaceAll(stampQueries[qi].name, ".", "_")]++
					tk := strings.Join(trace, " ")
					if !seen[tk] {
						seen[tk] = true
						sum.Traces = append(sum.Traces, tk)
					}
					if len(sum.Samples) < 1 {
						sum.Samples = append(sum.Samples, map[string]interface{}{"scenario": sc, "hook_point_sequence": trace})
					}
					_ = bb
					for _, v := range c12Stale(ev, initial) {
						if len(sum.Violations) < 25 {
							sum.Violations = append(sum.Violations, c05SchedViolation{Key: v.Key, What: fmt.Sprintf("%+v: rule (%s) %s", sc, v.Rule, v.What), Scenario: sc})
						}
					}
				}
			}
		}
	}
	b, _ := json.Marshal(sum)
	fmt.Printf("SUMMARY %s\n", b)
	return 0
}

// c12StressWorker: like c05's stress but only successful reloads and a hot key set, cache on.
func c12StressWorker(args []string) int {
	bname, seed, gens := args[0], int64(1), 15
	fmt.Sscan(args[1], &seed)
	fmt.Sscan(args[2], &gens)
	var b harness.Backend
	for _, x := range harness.Backends {
		if x.Name == bname {
			b = x
		}
	}
	rng := rand.New(rand.NewSource(seed))
	l, err := newLab(b, harness.ServerOpts{Cache: true}, 2000)
	if err != nil {
		fmt.Println(err)
		return 2
	}
	defer l.close()
	initial := l.gen
	stop := make(chan struct{})
	done := make(chan struct{})
	for c := 0; c < 6; c++ {
		go func(c int) {
			defer func() { done <- struct{}{} }()
			for i := 0; ; i++ {
				select {
				case <-stop:
					return
				default:
				}
				l.query(20+c, stampQueries[(c+i)%3], "s")
				if i%16 == 0 {
					time.Sleep(time.Millisecond)
				}
			}
		}(c)
	}
	for g := 0; g < gens; g++ {
		k := []string{"full-ok", "partial-ok"}[rng.Intn(2)]
		journal("reload %d %s", g, k)
		if _, _, err := l.reload(k); err != nil {
			fmt.Println(err)
		}
		time.Sleep(time.Duration(1+rng.Intn(4)) * time.Millisecond)
	}
	close(stop)
	for c := 0; c < 6; c++ {
		<-done
	}
	viol := c12Stale(l.hist.events, initial)
	if len(viol) > 20 {
		viol = viol[:20]
	}
	nq := 0
	for _, e := range l.hist.events {
		if e.Kind == "query" {
			nq++
		}
	}
	summary(map[string]interface{}{"queries": nq, "cache_hits": l.srv.Stats.Snapshot()["DNS_cache.hit"], "violations": viol})
	return 0
}

func replayC12(r *report.Run, raw json.RawMessage) {
	var sc c05Scenario
	if json.Unmarshal(raw, &sc) == nil && sc.Backend != "" && sc.QueryPoint != "" {
		ev, initial, trace, _, incon, err := c05RunScenario(sc)
		fmt.Println("trace:", trace, incon, err)
		for _, v := range c12Stale(ev, initial) {
			fmt.Printf("rule (%s) %s\n", v.Rule, v.What)
			r.Violation(v.Key, v.What, sc)
		}
		return
	}
	var c c12Case
	if err := json.Unmarshal(raw, &c); err != nil || len(c.History) == 0 {
		r.Inconclusive("unrecognised replay file")
		return
	}
	w := gen.GenWorld(rand.New(rand.NewSource(c.WorldSeed)), gen.WorldOpts{Layout: -1})
	cached, err := openAll(w.Text(), harness.ServerOpts{Cache: true})
	if err != nil {
		r.Violation("", err.Error(), nil)
		return
	}
	defer cached.close()
	plain, err := openAll(w.Text(), harness.ServerOpts{})
	if err != nil {
		r.Violation("", err.Error(), nil)
		return
	}
	defer plain.close()
	maxAns := model.NewIndex(w.Recs).MaxCandidates() + 1
	for bi := range cached.srv {
		if cached.srv[bi].B.Name != c.Backend {
			continue
		}
		for hi, q := range c.History {
			a, b := c12Answer(cached.srv[bi], q, maxAns), c12Answer(plain.srv[bi], q, maxAns)
			if a != b {
				fmt.Printf("query #%d differs:\n--- cache on\n%s\n--- cache off\n%s\n", hi, a, b)
				r.Violation("", "responses differ", c)
				return
			}
		}
	}
}
