package checks

import (
	"bytes"
	"encoding/json"
	"errors"
	"fmt"
	"io"
	"math/rand"
	"os"
	"path/filepath"

	spooky "github.com/dgryski/go-spooky"
	cdb "github.com/repustate/go-cdb"

	"verif/internal/report"
)

func init() {
	register("C16", "exploration", runC16, replayC16)
}

type c16Case struct {
	Kind string `json:"kind"`
	N    int    `json:"n"`
	Seed int64  `json:"seed"`
}

type kv struct{ k, v []byte }

func c16RandBytes(rng *rand.Rand, n int) []byte {
	b := make([]byte, n)
	for i := range b {
		b[i] = byte(rng.Intn(256))
	}
	return b
}

// c16Gen produces the pair sequence of a case plus keys that must be absent.
func c16Gen(c c16Case) (pairs []kv, absent [][]byte) {
	rng := rand.New(rand.NewSource(c.Seed))
	switch c.Kind {
	case "random":
		// small key alphabet so keys repeat; value lengths around buffer sizes now and then
		nkeys := c.N/3 + 1
		for i := 0; i < c.N; i++ {
			var k []byte
			switch rng.Intn(10) {
			case 0:
				k = []byte{}
			default:
				k = []byte(fmt.Sprintf("k%d", rng.Intn(nkeys)))
				if rng.Intn(4) == 0 {
					k = append(k, c16RandBytes(rng, rng.Intn(6))...)
				}
				if rng.Intn(8) == 0 { // long keys (deterministic tail so that they repeat)
					k = append(k, bytes.Repeat([]byte{byte(len(k))}, rng.Intn(300))...)
				}
			}
			vl := rng.Intn(20)
			switch rng.Intn(40) {
			case 0:
				vl = 0
			case 1:
				vl = 4090 + rng.Intn(12)
			case 2:
				vl = 65530 + rng.Intn(12)
			case 3:
				vl = 255 + rng.Intn(3)
			}
			if c.N >= 10000 && vl > 300 {
				vl = rng.Intn(300)
			}
			pairs = append(pairs, kv{k, c16RandBytes(rng, vl)})
		}
		for i := 0; i < 200; i++ {
			absent = append(absent, []byte(fmt.Sprintf("absent%d-%d", i, rng.Int63())))
		}
	case "onekey":
		k := []byte("hot")
		for i := 0; i < c.N; i++ {
			pairs = append(pairs, kv{k, []byte(fmt.Sprintf("v%06d", i))})
		}
		pairs = append(pairs, kv{[]byte("cold"), []byte("x")})
		absent = append(absent, []byte("ho"), []byte("hott"), []byte{})
	case "collide":
		// keys crafted with the repository's hash to fall into one table, with
		// start slots packed at the end of the table so probe chains wrap around
		n := c.N
		table := uint32(rng.Intn(256))
		nslots := uint32(2 * n)
		var keys [][]byte
		var absentSame [][]byte
		lo := nslots - uint32(n/4+1)
		for i := 0; len(keys) < n || len(absentSame) < 30; i++ {
			k := []byte(fmt.Sprintf("c%d-%d", c.Seed, i))
			h := spooky.Hash32(k)
			if h%256 != table {
				continue
			}
			slot := (h >> 8) % nslots
			if slot >= lo && len(keys) < n {
				keys = append(keys, k)
			} else if slot >= lo && len(absentSame) < 30 {
				absentSame = append(absentSame, k)
			}
			if i > 200000000 {
				break
			}
		}
		for i, k := range keys {
			pairs = append(pairs, kv{k, []byte(fmt.Sprintf("val-%d", i))})
			if i%5 == 0 { // repeated key inside the wrapped chain
				pairs = append(pairs, kv{k, []byte(fmt.Sprintf("val2-%d", i))})
			}
		}
		// duplicates change table size => recompute not needed for validity; absent keys share table/start region
		absent = absentSame
	case "fullhash":
		// pairs of different keys with the same full 32-bit hash (birthday search over the repository's hash),
		// written interleaved so that each key's later values sit behind the other key's records
		seen := map[uint32]string{}
		var pairsFound [][2]string
		for i := 0; len(pairsFound) < c.N && i < 3000000; i++ {
			k := fmt.Sprintf("fh%d-%d", c.Seed, i)
			h := spooky.Hash32([]byte(k))
			if o, ok := seen[h]; ok && o != k {
				pairsFound = append(pairsFound, [2]string{o, k})
				delete(seen, h)
				continue
			}
			seen[h] = k
		}
		for i, p := range pairsFound {
			a, b := []byte(p[0]), []byte(p[1])
			pairs = append(pairs, kv{a, []byte(fmt.Sprintf("A1-%d", i))}, kv{b, []byte(fmt.Sprintf("B1-%d", i))},
				kv{a, []byte(fmt.Sprintf("A2-%d", i))}, kv{b, []byte(fmt.Sprintf("B2-%d", i))})
		}
		for i := 0; i < 50; i++ {
			pairs = append(pairs, kv{[]byte(fmt.Sprintf("noise%d", i)), c16RandBytes(rng, 5)})
		}
		absent = append(absent, []byte("fh-absent"))
	case "keylens":
		// one key of every length 0..N (DNS keys are 2+wire name, up to 257 bytes; map keys longer), two values for every 7th
		for l := 0; l <= c.N; l++ {
			k := c16RandBytes(rng, l)
			pairs = append(pairs, kv{k, []byte(fmt.Sprintf("len%d", l))})
			if l%7 == 0 {
				pairs = append(pairs, kv{k, []byte(fmt.Sprintf("len%d-second", l))})
			}
			if l > 0 {
				a := append([]byte{}, k...)
				a[l-1] ^= 0x40
				absent = append(absent, a)
			}
		}
	case "empty":
		absent = append(absent, []byte{}, []byte("a"))
	case "sizes":
		// exactly N records with distinct keys
		for i := 0; i < c.N; i++ {
			pairs = append(pairs, kv{[]byte(fmt.Sprintf("s%d", i)), c16RandBytes(rng, rng.Intn(9))})
		}
		absent = append(absent, []byte("s"), []byte(fmt.Sprintf("s%d", c.N)))
	case "bigvals":
		for i := 0; i < c.N; i++ {
			k := []byte(fmt.Sprintf("b%d", i%7))
			pairs = append(pairs, kv{k, c16RandBytes(rng, 4000+rng.Intn(200))})
			pairs = append(pairs, kv{append([]byte("K"), c16RandBytes(rng, 4090+rng.Intn(10))...), []byte("long key")})
		}
		absent = append(absent, []byte("b7"))
	}
	return
}

func c16Run(c c16Case, dir string) (msg string, nrec int, maxPerKey int, fileSize int64) {
	pairs, absent := c16Gen(c)
	nrec = len(pairs)
	path := filepath.Join(dir, fmt.Sprintf("c16-%s-%d-%d.cdb", c.Kind, c.N, c.Seed))
	defer os.Remove(path)
	w, err := cdb.NewWriter(path)
	if err != nil {
		return "NewWriter: " + err.Error(), nrec, 0, 0
	}
	model := map[string][][]byte{}
	var order []string
	for _, p := range pairs {
		if err := w.Put(p.k, p.v); err != nil {
			return "Put: " + err.Error(), nrec, 0, 0
		}
		if _, ok := model[string(p.k)]; !ok {
			order = append(order, string(p.k))
		}
		model[string(p.k)] = append(model[string(p.k)], p.v)
	}
	if err := w.Close(); err != nil {
		return "Close: " + err.Error(), nrec, 0, 0
	}
	st, _ := os.Stat(path)
	fileSize = st.Size()
	db, err := cdb.Open(path)
	if err != nil {
		return "Open: " + err.Error(), nrec, 0, fileSize
	}
	defer db.Close()
	ctx := cdb.NewContext()
	lookup := func(k []byte) (vals [][]byte, err error) {
		defer func() {
			if e := recover(); e != nil {
				err = fmt.Errorf("panic: %v", e)
			}
		}()
		db.FindStart(ctx)
		for i := 0; ; i++ {
			v, e := db.FindNext(k, ctx)
			if errors.Is(e, io.EOF) {
				return vals, nil
			}
			if e != nil {
				return vals, e
			}
			vals = append(vals, append([]byte{}, v...))
			if i > nrec+2 {
				return vals, fmt.Errorf("FindNext does not terminate")
			}
		}
	}
	for _, k := range order {
		want := model[k]
		if len(want) > maxPerKey {
			maxPerKey = len(want)
		}
		got, err := lookup([]byte(k))
		if err != nil {
			return fmt.Sprintf("lookup key %q: %v", k, err), nrec, maxPerKey, fileSize
		}
		if len(got) != len(want) {
			return fmt.Sprintf("key %q: %d values returned, %d written", k, len(got), len(want)), nrec, maxPerKey, fileSize
		}
		for i := range want {
			if !bytes.Equal(got[i], want[i]) {
				return fmt.Sprintf("key %q: value #%d differs (len got %d want %d)", k, i, len(got[i]), len(want[i])), nrec, maxPerKey, fileSize
			}
		}
		// Find / Data return the first value
		v, err := db.Find([]byte(k), ctx)
		if err != nil || !bytes.Equal(v, want[0]) {
			return fmt.Sprintf("Find(%q) = %q,%v want first value", k, v, err), nrec, maxPerKey, fileSize
		}
	}
	for _, k := range absent {
		if _, ok := model[string(k)]; ok {
			continue
		}
		got, err := lookup(k)
		if err != nil || len(got) != 0 {
			return fmt.Sprintf("absent key %q found: %d values, err %v", k, len(got), err), nrec, maxPerKey, fileSize
		}
	}
	// every record is reachable through the slot tables exactly once
	seen := 0
	if err := db.ForEachKeys(func(h uint32, k, v []byte) { seen++ }); err != nil {
		return "ForEachKeys: " + err.Error(), nrec, maxPerKey, fileSize
	}
	if seen != nrec {
		return fmt.Sprintf("slot tables reference %d records, %d written", seen, nrec), nrec, maxPerKey, fileSize
	}
	// dump -> make reproduces the file, from a byte reader and from the file
	orig, err := os.ReadFile(path)
	if err != nil {
		return err.Error(), nrec, maxPerKey, fileSize
	}
	for _, src := range []string{"bytes", "file"} {
		var dump bytes.Buffer
		var rd io.Reader = bytes.NewReader(orig)
		var f *os.File
		if src == "file" {
			f, err = os.Open(path)
			if err != nil {
				return err.Error(), nrec, maxPerKey, fileSize
			}
			rd = f
		}
		err := cdb.Dump(&dump, rd)
		if f != nil {
			f.Close()
		}
		if err != nil {
			return fmt.Sprintf("Dump (from %s reader) of a %d-byte file with %d records failed: %v", src, len(orig), nrec, err), nrec, maxPerKey, fileSize
		}
		p2 := path + ".remade"
		out, err := os.Create(p2)
		if err != nil {
			return err.Error(), nrec, maxPerKey, fileSize
		}
		err = cdb.Make(out, bytes.NewReader(dump.Bytes()))
		out.Close()
		if err != nil {
			os.Remove(p2)
			return fmt.Sprintf("Make from dump (%s) failed: %v", src, err), nrec, maxPerKey, fileSize
		}
		re, _ := os.ReadFile(p2)
		os.Remove(p2)
		if !bytes.Equal(re, orig) {
			return fmt.Sprintf("dump->make (%s reader) does not reproduce the file (%d vs %d bytes)", src, len(re), len(orig)), nrec, maxPerKey, fileSize
		}
	}
	return "", nrec, maxPerKey, fileSize
}

func c16Cases(r *report.Run) []c16Case {
	s := r.Seed * 1000003
	cs := []c16Case{{"empty", 0, s}}
	for _, n := range []int{1, 2, 3, 255, 256, 257, 1000} {
		cs = append(cs, c16Case{"sizes", n, s + int64(n)})
	}
	for i := 0; i < r.Pick(30, 300); i++ {
		cs = append(cs, c16Case{"random", 1 + (i*37)%400, s + int64(100+i)})
	}
	cs = append(cs, c16Case{"random", 3000, s + 7}, c16Case{"random", r.Pick(20000, 50000), s + 8})
	cs = append(cs, c16Case{"onekey", 2, s}, c16Case{"onekey", 300, s}, c16Case{"onekey", r.Pick(2000, 5000), s})
	for i := 0; i < r.Pick(6, 40); i++ {
		cs = append(cs, c16Case{"collide", []int{4, 9, 17, 40, 64, 100}[i%6], s + int64(500+i)})
	}
	for i := 0; i < r.Pick(3, 12); i++ {
		cs = append(cs, c16Case{"bigvals", 3 + i*4, s + int64(900+i)})
	}
	cs = append(cs, c16Case{"fullhash", r.Pick(3, 12), s + 5})
	cs = append(cs, c16Case{"keylens", 300, s + 6}, c16Case{"keylens", r.Pick(1100, 9000), s + 9})
	if r.Thorough() {
		cs = append(cs, c16Case{"collide", 300, s + 77}, c16Case{"sizes", 50000, s + 78})
	}
	return cs
}

func runC16(r *report.Run) {
	r.SetRule("seeded workloads written with the real cdb.Writer and read back with the real reader: exact sizes 0,1,2,3,255-257,1000; random pair sequences with a small key alphabet (repeated/empty keys, empty values, value lengths around 255/4096/65536); one key with thousands of values; keys crafted with the repository's spooky hash into one table with start slots at the table end (wrap-around probing, plus absent keys hashing into the same region); pairs of different keys with the same full 32-bit hash, written interleaved; one key of every length 0..300 and 0..1100 (thorough 9000) with a one-bit-different absent twin; long keys/values; dump->make from a byte reader and from *os.File. non-trivial = workload with >=2 records and (a key with >=2 values or a file > 4096 bytes); distinct by (kind,n,seed)")
	r.Assume("model = insertion-ordered list per key kept by the harness")
	dir := os.Getenv("VERIF_SCRATCH")
	if dir == "" {
		dir = os.TempDir()
	}
	for _, c := range c16Cases(r) {
		msg, nrec, maxPerKey, size := c16Run(c, dir)
		r.Eval(1)
		r.Count("records_written", int64(nrec))
		r.Count("kind_"+c.Kind, 1)
		if size > 4096 {
			r.Count("files_over_4096_bytes", 1)
		}
		if maxPerKey >= 2 {
			r.Count("workloads_with_multivalue_keys", 1)
		}
		if nrec >= 2 && (maxPerKey >= 2 || size > 4096) {
			r.Nontrivial(fmt.Sprintf("%v", c))
		}
		if c.Kind == "collide" || r.SampleN() < 3 {
			r.Sample(map[string]interface{}{"case": c, "records": nrec, "max_values_per_key": maxPerKey, "file_bytes": size})
		}
		if msg != "" {
			r.Violation("", fmt.Sprintf("%v: %s", c, msg), c)
		}
	}
}

func replayC16(r *report.Run, raw json.RawMessage) {
	var c c16Case
	if err := json.Unmarshal(raw, &c); err != nil {
		r.Inconclusive(err.Error())
		return
	}
	dir := os.Getenv("VERIF_SCRATCH")
	if dir == "" {
		dir = os.TempDir()
	}
	if msg, _, _, _ := c16Run(c, dir); msg != "" {
		fmt.Println(msg)
		r.Violation("", msg, c)
	}
}
