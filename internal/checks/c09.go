package checks

import (
	"bytes"
	"encoding/json"
	"fmt"
	"math/rand"
	"sort"
	"strings"

	"github.com/facebookincubator/dns/dnsrocks/dnsdata"

	"verif/internal/gen"
	"verif/internal/harness"
	"verif/internal/report"
)

func init() {
	register("C09", "exploration", runC09, replayC09)
}

type c09Case struct {
	Line string `json:"line,omitempty"`
	V2   bool   `json:"v2_keys"`
	RDB  bool   `json:"rdb_codec"`
	File string `json:"file,omitempty"`
}

func c09Codec(v2, rdbMode bool) *dnsdata.Codec {
	c := new(dnsdata.Codec)
	c.Serial = harness.Serial
	c.Features.UseV2Keys = v2
	if rdbMode {
		c.Acc.Ranger.Enable()
		c.Acc.NoPrefixSets = true
		c.NoRnetOutput = true
	}
	return c
}

func c09MapString(m []dnsdata.MapRecord) string {
	var s []string
	for _, r := range m {
		s = append(s, fmt.Sprintf("%x=%x", r.Key, r.Value))
	}
	sort.Strings(s)
	return strings.Join(s, " ")
}

// c09Line checks the line-level round trip; returns "" when it holds.
func c09Line(line string, v2, rdbMode bool) (msg string, rejected bool) {
	c := c09Codec(v2, rdbMode)
	r1, err := c.DecodeLn([]byte(line))
	if err != nil {
		return "", true
	}
	m1, err := r1.MarshalMap()
	if err != nil {
		return "", true
	}
	t1, err := r1.MarshalText()
	if err != nil {
		return fmt.Sprintf("MarshalText failed: %v", err), false
	}
	if bytes.ContainsAny(t1, "\n") {
		return fmt.Sprintf("normal form %q contains a newline", t1), false
	}
	c2 := c09Codec(v2, rdbMode)
	r2, err := c2.DecodeLn(t1)
	if err != nil {
		return fmt.Sprintf("normal form %q is rejected: %v", t1, err), false
	}
	m2, err := r2.MarshalMap()
	if err != nil {
		return fmt.Sprintf("normal form %q does not compile: %v", t1, err), false
	}
	if a, b := c09MapString(m1), c09MapString(m2); a != b {
		return fmt.Sprintf("normal form %q compiles to different keys/values:\n  original: %s\n  reparsed: %s", t1, a, b), false
	}
	t2, err := r2.MarshalText()
	if err != nil {
		return fmt.Sprintf("second MarshalText failed: %v", err), false
	}
	if !bytes.Equal(t1, t2) {
		return fmt.Sprintf("normal form is not stable: %q then %q", t1, t2), false
	}
	return "", false
}

// c09Finding names the open-finding predicate a failing line satisfies ("" if none).
func c09Finding(line string) string {
	if len(line) == 0 {
		return ""
	}
	switch line[0] {
	case 'Z':
		f := strings.FieldsFunc(line[1:], func(r rune) bool { return r == ',' || r == ':' })
		sep := ","
		if !strings.Contains(line, ",") {
			sep = ":"
		}
		parts := strings.Split(line[1:], sep)
		_ = f
		if len(parts) > 3 && strings.TrimLeft(parts[3], "0") == "" && parts[3] != "" {
			return "soa-explicit-serial-0"
		}
	case 'B', 'H':
		if strings.Contains(line, "ipv6hint=") && strings.Contains(line, "::ffff:") {
			return "ipv6hint-v4mapped-text"
		}
	}
	return ""
}

// c09Spellings returns pairs of lines that differ only in how one field spells the same bytes.
func c09Spellings() [][2]string {
	oct := func(b string) string {
		var sb strings.Builder
		for i := 0; i < len(b); i++ {
			fmt.Fprintf(&sb, "\\%03o", b[i])
		}
		return sb.String()
	}
	mixed := func(b string) string { // printable bytes and valid multi-byte characters raw, the rest (and , : \) as \ooo
		var sb strings.Builder
		for _, r := range b {
			switch {
			case r == ',' || r == ':' || r == '\\' || r < 0x20 || r == 0x7f || r == 0xfffd:
				for _, c := range []byte(string(r)) {
					fmt.Fprintf(&sb, "\\%03o", c)
				}
			default:
				sb.WriteRune(r)
			}
		}
		return sb.String()
	}
	var out [][2]string
	for _, b := range []string{"caf\u00e9", "\u00e9,x", "\u00fc\\y", "\u00ff:z", "\u20ac,", "a\u0080b\\", "x\u00e9\x00y", "\U0001F600,e"} {
		for _, tmpl := range []string{"+%s.example.com,192.0.2.1,300", "'t.example.com,%s,60", "C%s.example.com,target.example.com,60", "^%s.example.com,ptr.example.com"} {
			out = append(out, [2]string{fmt.Sprintf(tmpl, mixed(b)), fmt.Sprintf(tmpl, oct(b))})
		}
	}
	return out
}

// c09ExtraLines are hand-shaped lines the world generator does not produce.
func c09ExtraLines(rng *rand.Rand) []string {
	// (the last five: raw multi-byte UTF-8 characters next to something that is escaped in the same field - the normal
	// form keeps printable characters raw, so a field may hold both)
	esc := []string{`a\054b`, `a\072b`, `a\134b`, `\052`, `x\040y`, `\303\251`, `a\000b`, `A-Z`,
		"\xc3\xa9\\054x", "\xc3\xbc\\134y", "\xc3\xbf\\072z", "\xe2\x82\xac\\054", "caf\xc3\xa9"}
	var out []string
	for _, e := range esc {
		n := e + ".example.com"
		out = append(out,
			"+"+n+",192.0.2.1,300",
			"+*."+n+",2001:db8::1,300,,\\141\\142,5",
			"C"+n+",target."+n+",60",
			"'"+n+",text with \\054 comma \\072 colon \\134 backslash,70",
			"^"+n+",ptr."+n,
			"&"+n+",192.0.2.9,ns."+n+",3600",
			"."+n+",192.0.2.9,a,3600",
			"@"+n+",192.0.2.9,mx."+n+",10,3600",
			"S"+n+",192.0.2.9,srv."+n+",8080,1,2,3600",
			":"+n+",99,\\003abc\\054\\072,120",
			"Z"+n+",ns."+n+",adm."+n+",7,1,2,3,4,5",
			"M"+n+",\\115\\141", "8*."+n+",\\145\\143",
			"B"+n+",svc."+n+",300,,1,alpn=h2",
			"H*."+n+",.,300,\\141\\142,0,",
			"="+n+",192.0.2.77,300",
		)
	}
	out = append(out,
		"'utf8.example.com,caf\xc3\xa9 \\054 \xc3\xbf\\072 \xc2\x80\\134 end,60",
		"Zexample.com,ns1.example.com,admin.example.com,0,1,2,3,4,5", // explicit serial 0
		"Zexample.com:ns1.example.com:admin.example.com:00",
		"B*.example.com,svc.example.com,300,,1,alpn=h3",
		"H*.w.example.com,.,0,ab,2,port=443;ipv4hint=192.0.2.1",
		"Hv6.example.com,.,0,,2,ipv6hint=::ffff:1.2.3.4",
		"%ab,10.0.0.0/8,Ma", "%\\000\\001,::/0", "%ab,192.0.2.1", "%ab,2001:db8::/32,\\000\\000",
		"!Ma,10.0.0.0,8,ab", "!Ma,11.0.0.0,0", "!\\000\\000,2001:db8::,32,ab", "!Ma,::,0", "!Ma,0.0.0.0,0,ab", "!Ma,255.255.255.255,32,ab",
		"+example.com,192.0.2.1", "+example.com,192.0.2.1,,,,0", "+example.com,192.0.2.1,0,,,4294967295",
		"&example.com,,a", ".example.com,,a", "&example.com,2001:db8::53,a.ns.example.com,0,,ab",
		"@example.com,,mx", "Sexample.com,,srv", "'example.com,", "Cexample.com,.", "^1.2.0.192.in-addr.arpa,host.example.com",
		":example.com,65534,,0", ":example.com,257,\\000\\005issueca.example.net",
		"M*.,\\115\\141", "8example.com,ec",
	)
	_ = rng
	return out
}

func c09WorldLines(seed int64) (*gen.World, []string) {
	rng := rand.New(rand.NewSource(seed))
	w := gen.GenWorld(rng, gen.WorldOpts{Layout: -1})
	var lines []string
	for _, l := range w.Lines {
		lines = append(lines, l.Text)
	}
	if len(w.Zones) > 0 && len(w.Owners) > 0 {
		for _, l := range gen.ForeignLines(rng, w, "ab") {
			lines = append(lines, l.Text)
		}
	}
	return w, lines
}

// c09Preprocess runs the repository's preprocessor with the dnsrocks-preproc codec settings.
func c09Preprocess(text []byte) ([]byte, error) {
	c := c09Codec(false, true)
	var out bytes.Buffer
	err := c.Preprocess(bytes.NewReader(text), &out)
	return out.Bytes(), err
}

func c09File(text []byte, v2 bool) (string, int) {
	pre, err := c09Preprocess(text)
	if err != nil {
		return "Preprocess failed: " + err.Error(), 0
	}
	d1, d2 := harness.NewDir("c09a"), harness.NewDir("c09b")
	defer harness.Remove(d1)
	defer harness.Remove(d2)
	if err := harness.CompileRDB(text, d1, harness.RDBOpts{V2: v2, Builder: true}); err != nil {
		return "compile of the original failed: " + err.Error(), 0
	}
	if err := harness.CompileRDB(pre, d2, harness.RDBOpts{V2: v2, Builder: true}); err != nil {
		return "compile of the preprocessed file failed: " + err.Error() + "\npreprocessed:\n" + string(pre), 0
	}
	a, err1 := harness.DumpRDB(d1)
	b, err2 := harness.DumpRDB(d2)
	if err1 != nil || err2 != nil {
		return fmt.Sprintf("dump: %v %v", err1, err2), 0
	}
	if d := harness.DiffMultiset(b, a); d != "" {
		return "database of the preprocessed file differs from the original's: " + d, len(a)
	}
	return "", len(a)
}

func runC09(r *report.Run) {
	r.SetRule("(a) line level: every line of generated data files (all 17 line types incl. '!' range points, both separators, default/explicit fields, octal escapes, mixed case, wildcard owners, locations, IPv4/IPv6) plus hand-shaped lines (escaped separators/backslash/space/NUL in names, wildcard SVCB/HTTPS, explicit zero fields, subnet and range-point forms) goes DecodeLn -> MarshalText -> DecodeLn; a line with raw UTF-8 next to \\ooo escapes and its all-octal spelling must compile identically; the compiled keys/values must be equal and the second MarshalText equal to the first, with CDB-style and RocksDB-style codecs and v1/v2 keys. (b) file level: dump(compile(F)) must equal dump(compile(Preprocess(F))) for v1 and v2 keys with one fixed serial, for generated worlds, for files whose maps hold 49-400 disjoint subnets and for files with hostile subnet sets (nested, adjacent, defaults, edges of the address space and of the IPv4-mapped block), whose '!' lines also go through (a). non-trivial = accepted line that is not byte-identical to its normal form; distinct by line text")
	r.Assume("lines the codec rejects are not part of the property (counted separately)")
	nworlds := r.Pick(150, 6000)
	seen := map[string]bool{}
	check := func(line string) {
		if seen[line] {
			return
		}
		seen[line] = true
		for _, mode := range []struct{ v2, rdb bool }{{false, false}, {true, true}} {
			msg, rejected := c09Line(line, mode.v2, mode.rdb)
			r.Eval(1)
			if rejected {
				r.Count("rejected_lines", 1)
				continue
			}
			r.Count("line_type_"+line[:1], 1)
			c := c09Codec(mode.v2, mode.rdb)
			if rec, err := c.DecodeLn([]byte(line)); err == nil {
				if t, err := rec.MarshalText(); err == nil && string(t) != line {
					r.Nontrivial(line)
				}
			}
			if msg != "" {
				r.Violation(c09Finding(line), fmt.Sprintf("line %q: %s", line, msg), c09Case{Line: line, V2: mode.v2, RDB: mode.rdb})
			}
		}
	}
	// two spellings of the same bytes - raw printable characters (multi-byte UTF-8 included) with \ooo escapes only
	// where needed, and every byte as \ooo - must compile to the same keys and values
	for _, pair := range c09Spellings() {
		for _, mode := range []struct{ v2, rdb bool }{{false, false}, {true, true}} {
			var maps [2]string
			ok := true
			for i, l := range pair {
				rec, err := c09Codec(mode.v2, mode.rdb).DecodeLn([]byte(l))
				if err != nil {
					ok = false
					break
				}
				m, err := rec.MarshalMap()
				if err != nil {
					ok = false
					break
				}
				maps[i] = c09MapString(m)
			}
			r.Eval(1)
			r.Count("spelling_pairs", 1)
			if ok && maps[0] != maps[1] {
				r.Violation("", fmt.Sprintf("line %q and its all-octal spelling %q compile to different keys/values:\n  raw:   %s\n  octal: %s", pair[0], pair[1], maps[0], maps[1]), c09Case{Line: pair[0], V2: mode.v2, RDB: mode.rdb})
			}
		}
		check(pair[0])
		check(pair[1])
	}
	rng := rand.New(rand.NewSource(r.Seed))
	for _, l := range c09ExtraLines(rng) {
		check(l)
	}
	fileRounds := r.Pick(40, 1500)
	for i := 0; i < nworlds; i++ {
		seed := r.Seed*13000027 + int64(i)
		w, lines := c09WorldLines(seed)
		for _, l := range lines {
			check(l)
		}
		if i < fileRounds {
			text := []byte(strings.Join(lines, "\n") + "\n")
			// the '!' lines of the preprocessed output are lines too
			if pre, err := c09Preprocess(text); err == nil {
				for _, l := range strings.Split(string(pre), "\n") {
					if strings.HasPrefix(l, "!") || strings.HasPrefix(l, "Z") {
						check(l)
					}
				}
			}
			for _, v2 := range []bool{false, true} {
				msg, keys := c09File(text, v2)
				r.Eval(1)
				r.Count("files_preprocessed_and_compiled", 1)
				r.Count("file_keys_compared", int64(keys))
				r.Nontrivial(fmt.Sprintf("file-%d-%v", seed, v2))
				if msg != "" {
					r.Violation("", fmt.Sprintf("v2=%v: %s", v2, msg), c09Case{File: string(text), V2: v2})
				}
			}
			if i == 0 {
				pre, _ := c09Preprocess(text)
				r.Sample(map[string]interface{}{"file_lines": len(lines), "layout": layoutName(w), "preprocessed_tail": lastN(strings.Split(strings.TrimSpace(string(pre)), "\n"), 6)})
			}
		}
		if r.Violations() >= 15 {
			break
		}
	}
	// files whose maps produce hundreds of range points (the preprocessor streams them in chunks)
	for i := 0; i < r.Pick(4, 40); i++ {
		mrng := rand.New(rand.NewSource(r.Seed*977 + int64(i)))
		lines := []string{".example.com,192.0.2.1,a,3600", "Mexample.com,\\115\\141", "8*.example.com,\\145\\143"}
		for _, mapid := range []string{"", "\\115\\141", "\\145\\143"} {
			n := []int{49, 60, 130, 400, 75}[mrng.Intn(5)]
			base := mrng.Intn(200)
			for j := 0; j < n; j++ {
				// disjoint, non-adjacent /24s and /48s: every subnet contributes two range points
				cidr := fmt.Sprintf("10.%d.%d.0/24", (base+j/120)%250, (2*j)%240)
				if j%3 == 0 {
					cidr = fmt.Sprintf("2001:db8:%x::/48", 2*(base*7+j))
				}
				l := fmt.Sprintf("%%%s,%s", []string{"aa", "bb", "cc"}[j%3], cidr)
				if mapid != "" {
					l += "," + mapid
				}
				lines = append(lines, l)
			}
		}
		mrng.Shuffle(len(lines), func(a, b int) { lines[a], lines[b] = lines[b], lines[a] })
		// drop accidental duplicates (one subnet is never declared twice with different locations)
		seenNet := map[string]bool{}
		var uniq []string
		for _, l := range lines {
			if strings.HasPrefix(l, "%") {
				f := strings.Split(l, ",")
				k := f[1]
				if len(f) > 2 {
					k += "," + f[2]
				}
				if seenNet[k] {
					continue
				}
				seenNet[k] = true
			}
			uniq = append(uniq, l)
		}
		text := []byte(strings.Join(uniq, "\n") + "\n")
		for _, v2 := range []bool{false, true} {
			msg, keys := c09File(text, v2)
			r.Eval(1)
			r.Count("files_with_over_100_range_points_per_map", 1)
			r.Count("file_keys_compared", int64(keys))
			r.Nontrivial(fmt.Sprintf("manysubnets-%d-%v", i, v2))
			if msg != "" {
				r.Violation("", fmt.Sprintf("file with %d subnet lines, v2=%v: %s", len(uniq)-3, v2, msg), c09Case{File: string(text), V2: v2})
			}
		}
	}
	// files with hostile subnet sets (nested, adjacent, same network at several lengths, defaults, the edges of the
	// address space and of the IPv4-mapped block): their range points, as text and compiled from text
	for i := 0; i < r.Pick(60, 1200); i++ {
		hrng := rand.New(rand.NewSource(r.Seed*7919 + int64(i)))
		f := c03GenMapFile(hrng, false, i%5 == 4)
		text := []byte(f.Text(hrng))
		if pre, err := c09Preprocess(text); err == nil {
			for _, l := range strings.Split(string(pre), "\n") {
				if strings.HasPrefix(l, "!") {
					check(l)
					r.Count("range_point_lines_of_hostile_subnet_sets", 1)
				}
			}
		}
		for _, v2 := range []bool{false, true} {
			msg, keys := c09File(text, v2)
			r.Eval(1)
			r.Count("files_with_hostile_subnet_sets", 1)
			r.Count("file_keys_compared", int64(keys))
			if msg != "" {
				r.Violation("", fmt.Sprintf("hostile subnet sets, v2=%v: %s", v2, msg), c09Case{File: string(text), V2: v2})
			}
		}
		if r.Violations() >= 15 {
			break
		}
	}
	for l := range seen {
		if r.SampleN() >= 6 {
			break
		}
		if strings.ContainsAny(l[:1], "ZS@B!") {
			c := c09Codec(false, false)
			if rec, err := c.DecodeLn([]byte(l)); err == nil {
				t, _ := rec.MarshalText()
				r.Sample(map[string]string{"line": l, "normal_form": string(t)})
			}
		}
	}
	r.Count("distinct_lines", int64(len(seen)))
}

func lastN(s []string, n int) []string {
	if len(s) > n {
		return s[len(s)-n:]
	}
	return s
}

func replayC09(r *report.Run, raw json.RawMessage) {
	var c c09Case
	if err := json.Unmarshal(raw, &c); err != nil {
		r.Inconclusive(err.Error())
		return
	}
	if c.Line != "" {
		msg, _ := c09Line(c.Line, c.V2, c.RDB)
		fmt.Println(msg)
		if msg != "" {
			r.Violation("", msg, c)
		}
		return
	}
	msg, _ := c09File([]byte(c.File), c.V2)
	fmt.Println(msg)
	if msg != "" {
		r.Violation("", msg, c)
	}
}
