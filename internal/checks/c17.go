package checks

import (
	"bytes"
	"encoding/json"
	"fmt"
	"math/rand"

	"github.com/facebookincubator/dns/dnsrocks/dnsdata"
	"github.com/facebookincubator/dns/dnsrocks/dnsdata/quote"

	"verif/internal/report"
)

func init() {
	register("C17", "exploration", runC17, replayC17)
}

// c17One checks one byte string; returns "" if the property holds.
func c17One(s []byte) string {
	in := append([]byte{}, s...)
	q := quote.Bquote(in)
	if !bytes.Equal(in, s) {
		return "Bquote modified its input"
	}
	if i := bytes.IndexAny(q, ",:\n"); i >= 0 {
		return fmt.Sprintf("quoted form %q contains separator %q", q, q[i])
	}
	qc := append([]byte{}, q...)
	u, err := quote.Bunquote(qc)
	if err != nil {
		return fmt.Sprintf("Bunquote(%q) error: %v", q, err)
	}
	if !bytes.Equal(u, s) {
		return fmt.Sprintf("Bunquote(Bquote(s)) = %q, want %q (quoted %q)", u, s, q)
	}
	// placed in a data-file field and read back: TXT line, both separators
	for _, sep := range []string{",", ":"} {
		line := []byte("'t.example.com" + sep + string(q) + sep + "300")
		c := new(dnsdata.Codec)
		recs, err := c.ConvertLn(line)
		if err != nil {
			return fmt.Sprintf("TXT line %q rejected: %v", line, err)
		}
		if len(recs) != 1 {
			return fmt.Sprintf("TXT line %q produced %d records", line, len(recs))
		}
		v := recs[0].Value
		if len(v) < 15 {
			return fmt.Sprintf("TXT line %q: short value", line)
		}
		if ttl := uint32(v[3])<<24 | uint32(v[4])<<16 | uint32(v[5])<<8 | uint32(v[6]); ttl != 300 {
			return fmt.Sprintf("TXT line %q: field after the text was not read back as TTL 300 (got %d): the quoted text leaked a separator", line, ttl)
		}
		var got []byte
		for p := v[15:]; len(p) > 0; {
			n := int(p[0])
			if 1+n > len(p) {
				return fmt.Sprintf("TXT line %q: malformed chunks", line)
			}
			got = append(got, p[1:1+n]...)
			p = p[1+n:]
		}
		if !bytes.Equal(got, s) {
			return fmt.Sprintf("TXT line %q decodes to %q, want %q", line, got, s)
		}
	}
	return ""
}

var c17Hostile = []byte{0, '\n', '\r', '\t', ' ', '"', '\'', '\\', ',', ':', '.', '0', '5', '7', 'x', 'u', 'U', 'a', 0x7f, 0x80, 0xbf, 0xc3, 0xa9, 0xe2, 0xef, 0xbd, 0xff, 0xf0}

func runC17(r *report.Run) {
	r.SetRule("all byte strings of length <=2, all length-3 strings over a 28-byte hostile alphabet (controls, quotes, backslash, separators, digits, UTF-8 lead/continuation bytes), seeded random strings (length<=40, biased to that alphabet and to backslash-escape look-alikes); every quoted form is held while the next string is quoted and must stay unchanged (fields of a record are quoted first and joined afterwards); non-trivial = string whose quoted form differs from the raw bytes (an escape was needed); distinct by content")
	r.Assume("quoting is exercised through quote.Bquote/Bunquote and through Codec.ConvertLn of a TXT line with both separators")
	// quoted forms are held while later strings are quoted (a record's fields are quoted one after the other and joined afterwards):
	// the held form must stay what it was and must still read back as its string, alone and inside a line assembled later
	var heldQ, heldCopy, heldS []byte
	check := func(s []byte) {
		r.Eval(1)
		q := quote.Bquote(append([]byte{}, s...))
		if heldQ != nil {
			if !bytes.Equal(heldQ, heldCopy) {
				r.Count("held_forms_changed", 1)
				r.Violation("", fmt.Sprintf("the quoted form %q of %q changed to %q after quoting %q", heldCopy, heldS, heldQ, s), map[string]interface{}{"bytes": heldS, "then": []byte(s)})
			} else if r.Counter("held_forms_checked")%16 == 0 {
				line := []byte("'t.example.com," + string(heldQ) + ",300")
				if recs, err := new(dnsdata.Codec).ConvertLn(line); err != nil || len(recs) != 1 {
					r.Violation("", fmt.Sprintf("line %q assembled from a held quoted form rejected: %v", line, err), map[string]interface{}{"bytes": heldS, "then": []byte(s)})
				}
			}
			r.Count("held_forms_checked", 1)
		}
		heldQ, heldCopy, heldS = q, append([]byte{}, q...), append([]byte{}, s...)
		if !bytes.Equal(q, s) {
			r.Nontrivial(string(s))
			r.Count("needed_escape", 1)
			if r.SampleN() < 6 && len(s) >= 2 {
				r.Sample(map[string]string{"raw": fmt.Sprintf("%q", s), "quoted": string(q)})
			}
		}
		if msg := c17One(s); msg != "" {
			r.Violation("", msg, map[string]interface{}{"bytes": []byte(s)})
		}
	}
	check(nil)
	for a := 0; a < 256; a++ {
		check([]byte{byte(a)})
		for b := 0; b < 256; b++ {
			check([]byte{byte(a), byte(b)})
		}
	}
	r.Count("exhaustive_len_le_2", 1+256+65536)
	for _, a := range c17Hostile {
		for _, b := range c17Hostile {
			for _, c := range c17Hostile {
				check([]byte{a, b, c})
			}
		}
	}
	r.Count("hostile_len_3", int64(len(c17Hostile)*len(c17Hostile)*len(c17Hostile)))
	if r.Thorough() {
		// all length-4 over a smaller core alphabet
		core := []byte{'\\', '"', ',', ':', '0', '5', '4', '7', '2', 'x', 'u', 0xff, 0xc3, 0xa9, '\n', 'n'}
		for _, a := range core {
			for _, b := range core {
				for _, c := range core {
					for _, d := range core {
						check([]byte{a, b, c, d})
					}
				}
			}
		}
		r.Count("core_len_4", int64(len(core)*len(core)*len(core)*len(core)))
	}
	rng := rand.New(rand.NewSource(r.Seed*7919 + 17))
	frag := [][]byte{[]byte(`\054`), []byte(`\072`), []byte(`\"`), []byte(`\\`), []byte(`\x`), []byte(`é`), []byte(`\U0001F600`), []byte("é"), []byte("\xef\xbf\xbd"), []byte("😀"), []byte(`\n`), []byte("​"), []byte(" ")}
	n := r.Pick(100000, 1000000)
	for i := 0; i < n; i++ {
		l := rng.Intn(41)
		var s []byte
		for len(s) < l {
			switch rng.Intn(4) {
			case 0:
				s = append(s, byte(rng.Intn(256)))
			case 1:
				s = append(s, c17Hostile[rng.Intn(len(c17Hostile))])
			case 2:
				s = append(s, frag[rng.Intn(len(frag))]...)
			default:
				s = append(s, byte('a'+rng.Intn(26)))
			}
		}
		check(s)
	}
	r.Count("random_strings", int64(n))
	if r.Thorough() {
		runNativeFuzz(r, "FuzzQuote", 3000000)
	}
}

func replayC17(r *report.Run, c json.RawMessage) {
	var in struct {
		Bytes []byte `json:"bytes"`
		Then  []byte `json:"then"`
	}
	if err := json.Unmarshal(c, &in); err != nil {
		r.Inconclusive("bad replay file: " + err.Error())
		return
	}
	if msg := c17One(in.Bytes); msg != "" {
		fmt.Println(msg)
		r.Violation("", msg, in)
	}
	if in.Then != nil {
		q := quote.Bquote(append([]byte{}, in.Bytes...))
		c := append([]byte{}, q...)
		quote.Bquote(append([]byte{}, in.Then...))
		if !bytes.Equal(q, c) {
			msg := fmt.Sprintf("the quoted form %q changed to %q after quoting %q", c, q, in.Then)
			fmt.Println(msg)
			r.Violation("", msg, in)
		}
	}
}
