package checks

import (
	"fmt"
	"math/rand"
	"net"
	"strings"

	"github.com/facebookincubator/dns/dnsrocks/db"
	"github.com/miekg/dns"

	"verif/internal/harness"
	"verif/internal/model"
	"verif/internal/report"
)

// ---- C03 (b): reader level ----

// c03MapFile is a generated map configuration.
type c03MapFile struct {
	Maps     map[string][]model.Subnet // map id (2 bytes) -> subnets; "\x00\x00" is the default (unnamed) map
	Resolver map[string]string         // binding name ("x.example.com" or "*.example.com" or "*.") -> map id
	ECS      map[string]string
	Names    []string // query names probed
}

func c03Octal(b string) string {
	var sb strings.Builder
	for i := 0; i < len(b); i++ {
		fmt.Fprintf(&sb, "\\%03o", b[i])
	}
	return sb.String()
}

func (f *c03MapFile) Text(rng *rand.Rand) string {
	var lines []string
	for id, subs := range f.Maps {
		for _, s := range subs {
			mid := c03Octal(id)
			if id == "\x00\x00" && rng.Intn(2) == 0 {
				mid = ""
			}
			lines = append(lines, fmt.Sprintf("%%%s,%s,%s", c03Octal(string(s.Loc[:])), s.Text(), mid))
		}
	}
	for n, id := range f.Resolver {
		lines = append(lines, fmt.Sprintf("M%s,%s", n, c03Octal(id)))
	}
	for n, id := range f.ECS {
		lines = append(lines, fmt.Sprintf("8%s,%s", n, c03Octal(id)))
	}
	// a zone so the file is not maps only
	lines = append(lines, ".example.com,192.0.2.1,ns1.example.com,3600", "+www.example.com,192.0.2.2,300")
	rng.Shuffle(len(lines), func(i, j int) { lines[i], lines[j] = lines[j], lines[i] })
	return strings.Join(lines, "\n") + "\n"
}

func c03MapFor(bind map[string]string, qname string) (string, bool) { return model.MapFor(bind, qname) }

func c03GenMapFile(rng *rand.Rand, allowZero, big bool) *c03MapFile {
	f := &c03MapFile{Maps: map[string][]model.Subnet{}, Resolver: map[string]string{}, ECS: map[string]string{}}
	ids := []string{"\x00\x00", "Ma", "Mb", "\x00\x07", "ec", "e2"}
	nm := 1 + rng.Intn(len(ids))
	rng.Shuffle(len(ids), func(i, j int) { ids[i], ids[j] = ids[j], ids[i] })
	ids = ids[:nm]
	for _, id := range ids {
		if rng.Intn(6) == 0 {
			f.Maps[id] = nil // a map that is bound to names but declares no subnet
			continue
		}
		maxN := 12
		if big {
			maxN = 160 // maps with more than 100 range points (the text emitter hands them over in chunks of 100)
		}
		f.Maps[id] = model.GenSubnets(rng, 1+rng.Intn(4), model.SubnetOpts{AllowZeroNetwork: allowZero, MaxN: maxN})
	}
	names := []string{"example.com", "www.example.com", "a.www.example.com", "b.a.www.example.com", "other.example.com", "example.org", "x.example.org", "com", "zz"}
	binds := []string{"example.com", "*.example.com", "www.example.com", "*.www.example.com", "*.a.www.example.com", "b.a.www.example.com", "*.", "*.com", "x.example.org", "*.example.org"}
	for _, target := range []map[string]string{f.Resolver, f.ECS} {
		n := rng.Intn(5)
		for i := 0; i < n; i++ {
			b := binds[rng.Intn(len(binds))]
			id := ids[rng.Intn(len(ids))]
			if id == "\x00\x00" {
				continue // binding a name to the null id means "no map"
			}
			if rng.Intn(3) == 0 {
				b = strings.ToUpper(b[:1]) + b[1:]
			}
			if _, dup := target[strings.ToLower(b)]; dup {
				continue
			}
			for k := range target {
				if strings.EqualFold(k, b) {
					b = ""
				}
			}
			if b != "" {
				target[b] = id
			}
		}
	}
	f.Names = names
	return f
}

func c03Lower(m map[string]string) map[string]string {
	out := map[string]string{}
	for k, v := range m {
		out[strings.ToLower(k)] = v
	}
	return out
}

type c03Cfg struct {
	name     string
	backend  harness.Backend
	separate bool
	// preprocess: the file goes through the preprocessor first (range points as '!' text lines), then the compiler
	preprocess bool
}

var c03Cfgs = []c03Cfg{
	{name: "cdb-combined", backend: harness.Backends[0]},
	{name: "cdb-separate", backend: harness.Backends[0], separate: true},
	{name: "rdb1", backend: harness.Backends[1]},
	{name: "rdb2", backend: harness.Backends[2]},
}

func c03PackName(n string) []byte {
	buf := make([]byte, 256)
	off, err := dns.PackDomainName(dns.Fqdn(strings.ToLower(n)), buf, 0, nil, false)
	if err != nil {
		return []byte{0}
	}
	return buf[:off]
}

// c03CheckFile compiles the map file to all configurations and compares
// ResolverLocation / EcsLocation with the model for every name x probe.
func c03CheckFile(f *c03MapFile, text string, rng *rand.Rand, r *report.Run) (msg string, zeroClass bool) {
	resolver, ecsBind := c03Lower(f.Resolver), c03Lower(f.ECS)
	for _, subs := range f.Maps {
		if c03ZeroNetwork(subs) {
			zeroClass = true
		}
	}
	// probes: per map, hostile probes of its subnets
	var probes []model.Probe
	for _, subs := range f.Maps {
		probes = append(probes, model.GenProbes(rng, subs, 1)...)
	}
	if len(probes) > 400 {
		rng.Shuffle(len(probes), func(i, j int) { probes[i], probes[j] = probes[j], probes[i] })
		probes = probes[:400]
	}
	// the same table reaches RocksDB a second way: the preprocessor writes the derived range points as text ('!' lines)
	// and that text is compiled - the last configuration goes through it
	cfgs := append([]c03Cfg{}, c03Cfgs...)
	cfgs = append(cfgs, c03Cfg{name: "rdb1-from-preprocessed-text", backend: harness.Backends[1], preprocess: true})
	for _, cfg := range cfgs {
		input := []byte(text)
		if cfg.preprocess {
			pre, err := c09Preprocess(input)
			if err != nil {
				return fmt.Sprintf("%s: Preprocess failed: %v", cfg.name, err), zeroClass
			}
			input = pre
			r.Count("b_files_compiled_from_preprocessed_text", 1)
		}
		path, err := harness.Compile(input, cfg.backend)
		if err != nil {
			harness.Remove(path)
			return fmt.Sprintf("%s: compile failed: %v", cfg.name, err), zeroClass
		}
		d, err := db.Open(path, cfg.backend.Driver)
		if err != nil {
			harness.Remove(path)
			return fmt.Sprintf("%s: open failed: %v", cfg.name, err), zeroClass
		}
		db.SeparateBitMap = cfg.separate
		m := c03CheckOpen(d, cfg.name, f, resolver, ecsBind, probes, r)
		db.SeparateBitMap = false
		d.Destroy()
		harness.Remove(path)
		if m != "" {
			return m, zeroClass
		}
	}
	return "", zeroClass
}

func c03CheckOpen(d *db.DB, cfg string, f *c03MapFile, resolver, ecsBind map[string]string, probes []model.Probe, r *report.Run) string {
	rd, err := db.NewReader(d)
	if err != nil {
		return cfg + ": NewReader: " + err.Error()
	}
	defer rd.Close()
	for _, name := range f.Names {
		q := c03PackName(name)
		rid, rok := c03MapFor(resolver, name)
		if !rok {
			rid = "\x00\x00"
		}
		eid, eok := c03MapFor(ecsBind, name)
		for _, p := range probes {
			ipText := net.IP(p.IP[:]).String()
			v4 := model.IsV4(p.IP)
			// resolver path: full-length address only
			if p.Plen == 128 {
				want, ok := model.LPM(f.Maps[rid], p.IP, 128)
				loc, err := c03Safe(func() (*db.Location, error) { return rd.ResolverLocation(q, ipText) })
				if r != nil {
					r.Count("b_resolver_lookups", 1)
				}
				if err != nil {
					return fmt.Sprintf("%s: ResolverLocation(%s, %s) error: %v", cfg, name, ipText, err)
				}
				if loc == nil {
					return fmt.Sprintf("%s: ResolverLocation(%s, %s) returned nil", cfg, name, ipText)
				}
				if string(loc.MapID[:]) != rid {
					return fmt.Sprintf("%s: ResolverLocation(%s, %s) used map %q, the name is bound to %q", cfg, name, ipText, loc.MapID[:], rid)
				}
				if ok != (loc.LocID != [2]byte{}) || (ok && loc.LocID != want.Loc) {
					return fmt.Sprintf("%s: ResolverLocation(%s, %s) in map %q gave location %q, longest match is %v -> %q", cfg, name, ipText, rid, loc.LocID[:], c03Txt(want, ok), want.Loc[:])
				}
				if ok && int(loc.Mask) != want.Len {
					return fmt.Sprintf("%s: ResolverLocation(%s, %s) matched length %d, longest match %s has %d", cfg, name, ipText, loc.Mask, want.Text(), want.Len)
				}
			}
			// ECS path (IPv4 clients alternately as family 1 and as family 2 with the IPv4-mapped address)
			e := &dns.EDNS0_SUBNET{Code: dns.EDNS0SUBNET}
			mappedFam2 := v4 && (int(p.IP[15])+p.Plen)%3 == 0
			if v4 && !mappedFam2 {
				e.Family, e.SourceNetmask, e.Address = 1, uint8(p.Plen-96), net.IP(p.IP[12:]).To4()
			} else {
				e.Family, e.SourceNetmask, e.Address = 2, uint8(p.Plen), net.IP(append([]byte{}, p.IP[:]...))
			}
			if e.SourceNetmask%8 != 0 && (int(p.IP[14])+int(p.IP[15])+p.Plen)%4 == 0 {
				// address bits beyond the source length inside the last octet sent: the client's prefix is unchanged
				e.Address[e.SourceNetmask/8] |= 0xff >> (e.SourceNetmask % 8)
				if r != nil {
					r.Count("b_ecs_lookups_with_bits_beyond_the_source_length", 1)
				}
			}
			if mappedFam2 {
				v4 = false // scope and defaults are expressed in the option's family
				if r != nil {
					r.Count("b_ecs_family2_mapped_lookups", 1)
				}
			}
			loc, err := c03Safe(func() (*db.Location, error) { return rd.EcsLocation(q, e) })
			if r != nil {
				r.Count("b_ecs_lookups", 1)
			}
			if err != nil {
				return fmt.Sprintf("%s: EcsLocation(%s, %s/%d) error: %v", cfg, name, ipText, e.SourceNetmask, err)
			}
			if !eok {
				if loc != nil || e.SourceScope != 0 {
					return fmt.Sprintf("%s: EcsLocation(%s, %s/%d): name has no client-subnet map but got loc %v scope %d", cfg, name, ipText, e.SourceNetmask, loc, e.SourceScope)
				}
				continue
			}
			want, ok := model.LPM(f.Maps[eid], p.IP, p.Plen)
			if !ok {
				def := uint8(24)
				if !v4 {
					def = 48
				}
				if loc != nil || e.SourceScope != def {
					return fmt.Sprintf("%s: EcsLocation(%s, %s/%d) in map %q: no declared subnet matches, got loc %v scope %d (want none, scope %d)", cfg, name, ipText, e.SourceNetmask, eid, c03Loc(loc), e.SourceScope, def)
				}
				continue
			}
			wantScope := want.Len
			if v4 {
				wantScope -= 96
			}
			if loc == nil || loc.LocID != want.Loc || string(loc.MapID[:]) != eid || int(e.SourceScope) != wantScope {
				return fmt.Sprintf("%s: EcsLocation(%s, %s/%d) in map %q: longest match %s -> %q (scope %d), got %v scope %d", cfg, name, ipText, e.SourceNetmask, eid, want.Text(), want.Loc[:], wantScope, c03Loc(loc), e.SourceScope)
			}
		}
	}
	return ""
}

func c03Txt(s model.Subnet, ok bool) string {
	if !ok {
		return "none"
	}
	return s.Text()
}

func c03Loc(l *db.Location) string {
	if l == nil {
		return "<nil>"
	}
	return fmt.Sprintf("{map %q loc %q mask %d}", l.MapID[:], l.LocID[:], l.Mask)
}

func c03Safe(f func() (*db.Location, error)) (l *db.Location, err error) {
	defer func() {
		if e := recover(); e != nil {
			err = fmt.Errorf("panic: %v", e)
		}
	}()
	return f()
}

func c03Reader(r *report.Run, rng *rand.Rand) {
	n := r.Pick(120, 3000)
	zc := 0
	for i := 0; i < n; i++ {
		allowZero := i%8 == 0
		f := c03GenMapFile(rng, allowZero, i%6 == 5)
		text := f.Text(rng)
		msg, zero := c03CheckFile(f, text, rng, r)
		r.Eval(1)
		r.Count("b_files", 1)
		nsub := 0
		for _, s := range f.Maps {
			nsub += len(s)
		}
		if nsub >= 2 && len(f.Resolver)+len(f.ECS) > 0 {
			r.Nontrivial(text)
		}
		if i < 2 {
			r.Sample(map[string]interface{}{"level": "reader", "file": strings.Split(strings.TrimSpace(text), "\n")})
		}
		if msg != "" {
			key := ""
			if zero {
				key = "subnet-at-zero-network"
				zc++
			}
			r.Violation(key, "reader: "+msg, map[string]interface{}{"file": text})
		}
	}
	r.Count("b_files_failing_in_zero_network_class", int64(zc))
}

// c03ReaderSet checks one subnet set bound to every name through root wildcard maps (used by replay).
func c03ReaderSet(set []model.Subnet, probes []model.Probe, _ int) string {
	f := &c03MapFile{Maps: map[string][]model.Subnet{"Ma": set}, Resolver: map[string]string{"*.": "Ma"}, ECS: map[string]string{"*.": "Ma"}, Names: []string{"www.example.com"}}
	rng := rand.New(rand.NewSource(1))
	msg, _ := c03CheckFile(f, f.Text(rng), rng, nil)
	return msg
}
