package checks

import (
	"encoding/json"
	"fmt"
	"math/rand"
	"net"
	"strings"

	"verif/internal/gen"
	"verif/internal/harness"
	"verif/internal/model"
	"verif/internal/report"
)

func init() {
	register("C04", "exploration", runC04, replayC04)
}

type c04Case struct {
	WorldSeed int64      `json:"world_seed"`
	Foreign   string     `json:"foreign_location"`
	Backend   string     `json:"backend"`
	Name      string     `json:"qname"`
	Type      uint16     `json:"qtype"`
	Client    gen.Client `json:"client"`
	Before    string     `json:"response_before"`
	After     string     `json:"response_after"`
	EditLines []string   `json:"edit"`
}

func c04World(seed int64) *gen.World {
	rng := rand.New(rand.NewSource(seed))
	for {
		w := gen.GenWorld(rng, gen.WorldOpts{Layout: -1, ForceECS: rng.Intn(2) == 0})
		if len(w.Locs) >= 1 && len(w.Zones) > 0 && w.Comment == "" {
			return w
		}
	}
}

// c04Edit derives F' from F: only records tagged with the foreign location are
// added/changed/deleted, and subnets of a map no name is bound to are added.
// It returns the new text, a description of the edit and the owners touched.
func c04Edit(w *gen.World, foreign string, seed int64) (text []byte, edit []string, touched map[string]bool) {
	rng := rand.New(rand.NewSource(seed ^ 0x0badc0de))
	touched = map[string]bool{}
	var keep []string
	for _, l := range w.Lines {
		allForeign := len(l.Recs) > 0
		for _, rc := range l.Recs {
			if rc.Loc != foreign {
				allForeign = false
			}
		}
		if allForeign && rng.Intn(2) == 0 {
			edit = append(edit, "-"+l.Text)
			for _, rc := range l.Recs {
				touched[rc.Owner] = true
			}
			continue
		}
		keep = append(keep, l.Text)
	}
	add := gen.ForeignLines(rng, w, foreign)
	for _, l := range add {
		edit = append(edit, "+"+l.Text)
		for _, rc := range l.Recs {
			touched[rc.Owner] = true
		}
		keep = append(keep, l.Text)
	}
	return []byte(strings.Join(keep, "\n") + "\n"), edit, touched
}

func c04Related(touched map[string]bool, qname string) bool {
	for n := qname; ; {
		if touched[n] {
			return true
		}
		p, ok := gen.Parent(n)
		if !ok {
			break
		}
		n = p
	}
	for t := range touched {
		if strings.HasSuffix(t, "."+qname) {
			return true
		}
	}
	return false
}

func c04Answer(sv *harness.Server, q gen.Query, c gen.Client, maxAns int) string {
	res := sv.Serve(buildQuery(q, c, nil, 99), harness.NewWriter(c.IP, false), maxAns)
	if res.Panic != "" {
		return "PANIC " + res.Panic
	}
	if res.Msg == nil {
		return fmt.Sprintf("NO-RESPONSE rcode=%d", res.Rcode)
	}
	return harness.CanonMsg(res.Msg).Full(false)
}

func runC04(r *report.Run) {
	r.SetRule("metamorphic pairs: a generated file F and F' = F with random edits touching only records tagged with a foreign location L' (added at existing names, new names, apexes as SOA/NS, wildcards, new delegations, glue of existing NS targets; existing L'-tagged lines deleted) plus subnets of a new map bound to no name (new prefix lengths); both compiled to CDB, RocksDB v1 and v2; every generated query from every client whose location for that name is not L' must get the identical canonical response. non-trivial = (pair, query) where the edit touched the queried name, one of its ancestors or a name below it; distinct by (file, edit, query, client)")
	r.Assume("clients located in L' itself are sent but not compared (their answers may legitimately change); every other pair runs with the response cache enabled; randomised address selection neutralised with max-answer >= candidates")
	npairs := r.Pick(40, 400)
	for i := 0; i < npairs; i++ {
		seed := r.Seed*11000027 + int64(i)
		w := c04World(seed)
		rng := rand.New(rand.NewSource(seed ^ 0x4444))
		// the foreign location: one in use, or a fresh one nobody is mapped to
		foreign := w.Locs[rng.Intn(len(w.Locs))]
		if rng.Intn(4) == 0 {
			foreign = "zz"
		}
		text2, edit, touched := c04Edit(w, foreign, seed)
		// every other pair runs with the response cache on: a leak through a shared cache entry is a leak too
		opt := harness.ServerOpts{Cache: i%2 == 1}
		before, err1 := openAll(w.Text(), opt)
		r.Eval(1)
		if err1 != nil {
			r.Violation("", "file rejected: "+err1.Error(), c04Case{WorldSeed: seed})
			continue
		}
		after, err2 := openAll(text2, opt)
		if err2 != nil {
			before.close()
			r.Violation("", "edited file rejected: "+err2.Error(), c04Case{WorldSeed: seed, Foreign: foreign, EditLines: edit})
			continue
		}
		r.Count("edit_lines", int64(len(edit)))
		if i < 2 {
			r.Sample(map[string]interface{}{"foreign_location": foreign, "edit": edit})
		}
		qs := w.Queries(rng, r.Pick(200, 350))
		// also ask for the names the edit introduced
		for t := range touched {
			qs = append(qs, gen.Query{Name: t, Type: 1}, gen.Query{Name: "a." + t, Type: 16})
		}
		clients := w.Clients(rng)
		maxAns := model.NewIndex(w.Recs).MaxCandidates() + 8
		for _, q := range qs {
			c := clients[rng.Intn(len(clients))]
			if loc, _ := clientLoc(w.Maps, q.Name, c); loc == foreign {
				// a client of the foreign location itself: its answers may change, so they are not compared,
				// but the query is still sent (it may populate the response cache)
				r.Count("uncompared_foreign_client_queries", 1)
				for bi := range before.srv {
					c04Answer(before.srv[bi], q, c, maxAns)
					c04Answer(after.srv[bi], q, c, maxAns)
				}
				continue
			}
			related := c04Related(touched, q.Name)
			for bi := range before.srv {
				a := c04Answer(before.srv[bi], q, c, maxAns)
				b := c04Answer(after.srv[bi], q, c, maxAns)
				r.Count("response_pairs", 1)
				if related {
					r.Count("response_pairs_near_the_edit", 1)
					r.Nontrivial(fmt.Sprintf("%d|%s|%d|%v|%s", seed, q.Name, q.Type, c, before.srv[bi].B.Name))
				}
				if a != b {
					r.Violation("", fmt.Sprintf("%s: response to %q type %d from %+v changed after an edit confined to location %q:\n--- before\n%s\n--- after\n%s\nedit: %v", before.srv[bi].B.Name, q.Name, q.Type, c, foreign, a, b, edit),
						c04Case{WorldSeed: seed, Foreign: foreign, Backend: before.srv[bi].B.Name, Name: q.Name, Type: q.Type, Client: c, Before: a, After: b, EditLines: edit})
					break
				}
			}
		}
		// the names the edit touched, asked first by a client of the foreign location and then by everybody else
		for t := range touched {
			for _, qt := range []uint16{1, 16, 28, 2} {
				q := gen.Query{Name: t, Type: qt}
				var others []gen.Client
				for _, c := range clients {
					if loc, _ := clientLoc(w.Maps, t, c); loc == foreign {
						for bi := range before.srv {
							c04Answer(before.srv[bi], q, c, maxAns)
							c04Answer(after.srv[bi], q, c, maxAns)
						}
					} else {
						others = append(others, c)
					}
				}
				for _, c := range others {
					for bi := range before.srv {
						a := c04Answer(before.srv[bi], q, c, maxAns)
						b := c04Answer(after.srv[bi], q, c, maxAns)
						r.Count("response_pairs", 1)
						r.Count("response_pairs_at_edited_names_after_a_foreign_client", 1)
						if a != b {
							r.Violation("", fmt.Sprintf("%s (cache=%v): response to %q type %d from %+v changed after an edit confined to location %q (a client of that location had asked the same question before):\n--- before\n%s\n--- after\n%s", before.srv[bi].B.Name, opt.Cache, q.Name, q.Type, c, foreign, a, b),
								c04Case{WorldSeed: seed, Foreign: foreign, Backend: before.srv[bi].B.Name, Name: q.Name, Type: q.Type, Client: c, Before: a, After: b, EditLines: edit})
							break
						}
					}
				}
			}
		}
		before.close()
		after.close()
		if r.Violations() >= 10 {
			break
		}
	}
}

func replayC04(r *report.Run, raw json.RawMessage) {
	var c c04Case
	if err := json.Unmarshal(raw, &c); err != nil {
		r.Inconclusive(err.Error())
		return
	}
	w := c04World(c.WorldSeed)
	text2, _, _ := c04Edit(w, c.Foreign, c.WorldSeed)
	before, err := openAll(w.Text(), harness.ServerOpts{})
	if err != nil {
		r.Violation("", err.Error(), c)
		return
	}
	defer before.close()
	after, err := openAll(text2, harness.ServerOpts{})
	if err != nil {
		r.Violation("", err.Error(), c)
		return
	}
	defer after.close()
	maxAns := model.NewIndex(w.Recs).MaxCandidates() + 8
	for bi := range before.srv {
		if before.srv[bi].B.Name != c.Backend {
			continue
		}
		q := gen.Query{Name: c.Name, Type: c.Type}
		a, b := c04Answer(before.srv[bi], q, c.Client, maxAns), c04Answer(after.srv[bi], q, c.Client, maxAns)
		fmt.Printf("--- before\n%s\n--- after\n%s\n", a, b)
		if a != b {
			r.Violation("", "responses differ", c)
		}
	}
	_ = net.IP{}
}
