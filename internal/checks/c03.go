package checks

import (
	"bytes"
	"encoding/json"
	"fmt"
	"math/rand"
	"net"
	"sort"

	"github.com/facebookincubator/dns/dnsrocks/dnsdata"

	"verif/internal/model"
	"verif/internal/report"
)

func init() {
	register("C03", "exploration", runC03, replayC03)
}

type c03Case struct {
	Subnets []string `json:"subnets"` // "cidr loc"
	Probe   string   `json:"probe,omitempty"`
	set     []model.Subnet
}

func c03Describe(set []model.Subnet) []string {
	var out []string
	for _, s := range set {
		out = append(out, fmt.Sprintf("%s %s", s.Text(), string(s.Loc[:])))
	}
	return out
}

// c03ZeroNetwork is the predicate of the open finding D13: the set declares an
// IPv6 subnet other than ::/0 that numerically contains the IPv4-mapped block
// ::ffff:0:0/96 (for instance ::/8 or ::/80).
func c03ZeroNetwork(set []model.Subnet) bool {
	var mapped [16]byte
	mapped[10], mapped[11] = 0xff, 0xff
	for _, s := range set {
		if !s.V4 && s.Len > 0 && s.Len < 96 && model.Mask(mapped, s.Len) == model.Mask(s.IP, s.Len) {
			return true
		}
	}
	return false
}

type c03Key struct {
	key  [17]byte
	null bool
	loc  [2]byte
}

// c03Points runs the real Rearranger and renders its output the way the
// compiler stores it (key = ip16 || masklen-or-0, value = location or empty).
func c03Points(set []model.Subnet) ([]c03Key, error) {
	r := dnsdata.NewRearranger(len(set))
	for _, s := range set {
		if err := r.AddLocation(s.IPNet(), s.Loc[:]); err != nil {
			return nil, err
		}
	}
	var keys []c03Key
	for _, p := range r.Rearrange() {
		var k c03Key
		ip := p.To16()
		copy(k.key[:16], ip[:])
		if p.LocIsNull() {
			k.null = true
			k.key[16] = 0
		} else {
			k.key[16] = p.MaskLen()
			copy(k.loc[:], p.LocID())
		}
		keys = append(keys, k)
	}
	sort.SliceStable(keys, func(i, j int) bool { return bytes.Compare(keys[i].key[:], keys[j].key[:]) < 0 })
	for i := 1; i < len(keys); i++ {
		if keys[i].key == keys[i-1].key {
			return keys, fmt.Errorf("two range points share the key %x (the store would hold two values and the lookup fails)", keys[i].key)
		}
	}
	return keys, nil
}

// c03Lookup is the predecessor search rdbdriver performs (SeekForPrev on ip||requested masklen).
func c03Lookup(keys []c03Key, p model.Probe) (found bool, k c03Key) {
	var target [17]byte
	copy(target[:16], p.IP[:])
	target[16] = byte(p.Plen)
	i := sort.Search(len(keys), func(i int) bool { return bytes.Compare(keys[i].key[:], target[:]) > 0 })
	if i == 0 {
		return false, c03Key{}
	}
	return true, keys[i-1]
}

func c03CheckSet(set []model.Subnet, probes []model.Probe) (msg string, probe model.Probe, matched int) {
	keys, err := c03Points(set)
	if err != nil {
		return err.Error(), model.Probe{}, 0
	}
	for _, p := range probes {
		want, ok := model.LPM(set, p.IP, p.Plen)
		found, k := c03Lookup(keys, p)
		gotNull := !found || k.null
		if ok {
			matched++
		}
		switch {
		case !ok && !gotNull:
			return fmt.Sprintf("client %s/%d: no declared subnet matches, range points give location %q (matched length %d)", net.IP(p.IP[:]), p.Plen, k.loc[:], k.key[16]), p, matched
		case ok && gotNull:
			return fmt.Sprintf("client %s/%d: longest match is %s -> %q, range points give no location", net.IP(p.IP[:]), p.Plen, want.Text(), want.Loc[:]), p, matched
		case ok && (k.loc != want.Loc || int(k.key[16]) != want.Len):
			// same length+network declared twice is identical by construction, so loc must agree
			return fmt.Sprintf("client %s/%d: longest match is %s -> %q (length %d), range points give %q with matched length %d", net.IP(p.IP[:]), p.Plen, want.Text(), want.Loc[:], want.Len, k.loc[:], k.key[16]), p, matched
		}
	}
	return "", model.Probe{}, matched
}

func runC03(r *report.Run) {
	r.SetRule("(a) seeded subnet sets per map (1-40 subnets: nested, adjacent, same network at several lengths, identical duplicates, default routes, first/last block of each family, /32 and /128, blocks next to ::ffff:0:0/96) fed to the real Rearranger; its points are searched by predecessor on (ip, requested length) exactly as the RocksDB driver does and compared (location and matched length) with a brute-force longest-prefix oracle on probes = first/last/just-outside/random-inside address of every block at lengths around the block length, family boundaries and random addresses. (b) the same sets rendered as % / M / 8 lines, compiled to CDB (combined and per-family prefix sets), RocksDB v1 and v2, looked up through Reader.ResolverLocation/EcsLocation. non-trivial = set with >=2 subnets of which two nest or touch, with at least one probe matching a declared subnet; distinct by set content")
	r.Assume("ECS/client prefixes have zero host bits (what a conforming sender produces); one subnet is never declared twice with different locations")
	rng := rand.New(rand.NewSource(r.Seed*2750159 + 3))
	nsets := r.Pick(20000, 1000000)
	if v := r.Pick(0, 0); v != 0 {
		nsets = v
	}
	zeroClass := 0
	for i := 0; i < nsets; i++ {
		// one set in eight is allowed to contain the zero-network class (open finding D13)
		allowZero := i%8 == 0
		set := model.GenSubnets(rng, 1+rng.Intn(5), model.SubnetOpts{AllowZeroNetwork: allowZero})
		probes := model.GenProbes(rng, set, 4)
		msg, p, matched := c03CheckSet(set, probes)
		r.Eval(1)
		r.Count("a_probes", int64(len(probes)))
		r.Count("a_probes_matching_a_subnet", int64(matched))
		if len(set) >= 2 && matched > 0 {
			r.Nontrivial(fmt.Sprint(c03Describe(set)))
		}
		if i < 3 {
			r.Sample(map[string]interface{}{"level": "rearranger", "subnets": c03Describe(set), "probes": len(probes)})
		}
		if msg != "" {
			key := ""
			if c03ZeroNetwork(set) {
				key = "subnet-at-zero-network"
				zeroClass++
			}
			r.Violation(key, "rearranger: "+msg, c03Case{Subnets: c03Describe(set), Probe: fmt.Sprintf("%s/%d", net.IP(p.IP[:]), p.Plen)})
		}
	}
	r.Count("a_sets", int64(nsets))
	r.Count("a_sets_failing_in_zero_network_class", int64(zeroClass))
	c03Reader(r, rng)
}

func c03ParseCase(c c03Case) []model.Subnet {
	var set []model.Subnet
	for _, line := range c.Subnets {
		var cidr, loc string
		fmt.Sscanf(line, "%s %s", &cidr, &loc)
		_, n, err := net.ParseCIDR(cidr)
		if err != nil {
			continue
		}
		var s model.Subnet
		ones, bits := n.Mask.Size()
		copy(s.IP[:], n.IP.To16())
		s.V4 = bits == 32
		s.Len = ones
		if s.V4 {
			s.Len += 96
		}
		copy(s.Loc[:], loc)
		set = append(set, s)
	}
	return set
}

func replayC03(r *report.Run, raw json.RawMessage) {
	var c c03Case
	if err := json.Unmarshal(raw, &c); err != nil {
		r.Inconclusive(err.Error())
		return
	}
	set := c03ParseCase(c)
	rng := rand.New(rand.NewSource(1))
	probes := model.GenProbes(rng, set, 50)
	if msg, _, _ := c03CheckSet(set, probes); msg != "" {
		fmt.Println("rearranger level:", msg)
		r.Violation("", msg, c)
	}
	if msg := c03ReaderSet(set, probes, 0); msg != "" {
		fmt.Println("reader level:", msg)
		r.Violation("", msg, c)
	}
}
