package checks

import (
	"encoding/json"
	"fmt"
	"math/rand"
	"strings"
	"sync"
	"time"

	"github.com/miekg/dns"

	"verif/internal/gen"
	"verif/internal/harness"
	"verif/internal/model"
	"verif/internal/report"
)

func init() {
	register("C11", "exploration", runC11, replayC11)
	Workers["c11race"] = c11RaceWorker
}

type c11Config struct {
	WorldSeed int64  `json:"world_seed"`
	Backend   string `json:"backend"`
	QName     string `json:"qname"` // canonical
	Owner     string `json:"owner"`
	Wild      bool   `json:"wild"`
	QType     uint16 `json:"qtype"`
	IP        string `json:"client_ip"`
	Loc       string `json:"client_location"`
	Max       int    `json:"max_answer"`
	N         int    `json:"n"`
}

type c11Cand struct {
	key    string // canonical "ttl type rdata"
	weight uint32
}

func c11Candidates(ix *model.Index, owner string, wild bool, loc string, t uint16) []c11Cand {
	var out []c11Cand
	for _, r := range ix.Visible(owner, wild, loc) {
		if r.Type == t {
			out = append(out, c11Cand{key: fmt.Sprintf("%d %d %x", r.TTL, r.Type, r.Rdata), weight: r.Weight})
		}
	}
	return out
}

type c11Tally struct {
	anomalies []string
	counts    map[string]int64 // for max=1: chosen candidate key -> count
	responses int
}

// c11Run sends cfg.N identical queries and checks the per-response invariants.
func c11Run(sv *harness.Server, ix *model.Index, cfg c11Config) (viol string, t c11Tally) {
	t.counts = map[string]int64{}
	cands := c11Candidates(ix, cfg.Owner, cfg.Wild, cfg.Loc, cfg.QType)
	weightOf := map[string]uint32{}
	positive := 0
	for _, c := range cands {
		weightOf[c.key] = c.weight // duplicates of an identical record are not generated
		if c.weight > 0 {
			positive++
		}
	}
	wantCount := cfg.Max
	if positive < wantCount {
		wantCount = positive
	}
	anyVisible := len(ix.Visible(cfg.Owner, cfg.Wild, cfg.Loc)) > 0
	for i := 0; i < cfg.N; i++ {
		q := harness.MakeQuery(gen.Presentation(cfg.QName), cfg.QType, uint16(i))
		res := sv.Serve(q, harness.NewWriter(cfg.IP, false), cfg.Max)
		if res.Panic != "" || res.Msg == nil {
			return fmt.Sprintf("no usable reply: panic=%q rcode=%d", res.Panic, res.Rcode), t
		}
		t.responses++
		m := res.Msg
		if anyVisible && m.Rcode != dns.RcodeSuccess {
			return fmt.Sprintf("rcode %d although the name has visible records (must report that the name exists)", m.Rcode), t
		}
		seen := map[string]bool{}
		n := 0
		for _, rr := range m.Answer {
			c := harness.CanonOf(rr)
			if c.Type != cfg.QType {
				continue
			}
			n++
			k := fmt.Sprintf("%d %d %x", c.TTL, c.Type, c.Rdata)
			w, declared := weightOf[k]
			if !declared {
				return fmt.Sprintf("served %s which is not a declared record of %s visible to location %q", rr.String(), cfg.Owner, cfg.Loc), t
			}
			if seen[k] {
				return fmt.Sprintf("record %s repeated in one answer", rr.String()), t
			}
			seen[k] = true
			if w == 0 {
				t.anomalies = append(t.anomalies, "weight-0 record served: "+rr.String())
			}
			if cfg.Max == 1 {
				t.counts[k]++
			}
		}
		if n > cfg.Max {
			return fmt.Sprintf("%d address records with max-answer %d", n, cfg.Max), t
		}
		if n != wantCount {
			t.anomalies = append(t.anomalies, fmt.Sprintf("%d records served, min(max=%d, positive-weight candidates=%d) = %d", n, cfg.Max, positive, wantCount))
		}
	}
	return "", t
}

// c11Decide applies the rare-draw rule: one anomaly in a configuration is
// re-run; a recurrence (or several at once) is a violation.
func c11Decide(sv *harness.Server, ix *model.Index, cfg c11Config, r *report.Run) (string, c11Tally) {
	viol, t := c11Run(sv, ix, cfg)
	if viol != "" {
		return viol, t
	}
	if len(t.anomalies) == 0 {
		return "", t
	}
	if len(t.anomalies) > 1 {
		return fmt.Sprintf("%d anomalous responses out of %d, e.g. %s", len(t.anomalies), t.responses, t.anomalies[0]), t
	}
	r.Count("rare_draw_reruns", 1)
	viol2, t2 := c11Run(sv, ix, cfg)
	if viol2 != "" {
		return viol2, t
	}
	if len(t2.anomalies) > 0 {
		return fmt.Sprintf("anomaly recurred on re-run: %s / %s", t.anomalies[0], t2.anomalies[0]), t
	}
	return "", t
}

func c11Proportional(cands []c11Cand, counts map[string]int64) (p float64, bins int, detail string) {
	var obs []int64
	var prob []float64
	var sum float64
	for _, c := range cands {
		sum += float64(c.weight)
	}
	for _, c := range cands {
		if c.weight == 0 {
			continue
		}
		obs = append(obs, counts[c.key])
		prob = append(prob, float64(c.weight)/sum)
	}
	p, bins, chi := model.GoodnessOfFit(obs, prob, 10)
	return p, bins, fmt.Sprintf("observed %v expected-prob %v chi2=%.1f bins=%d", obs, prob, chi, bins)
}

func c11OpenWorld(seed int64) (*gen.World, []gen.WeightedName, *model.Index, *c01Servers, error) {
	w, names := gen.GenWeighted(rand.New(rand.NewSource(seed)))
	servers, err := openAll(w.Text(), harness.ServerOpts{})
	return w, names, model.NewIndex(w.Recs), servers, err
}

var c11Clients = []struct{ ip, loc string }{{"203.0.113.9", ""}, {"10.1.0.5", "aa"}, {"10.2.0.5", "bb"}}

func runC11(r *report.Run) {
	r.SetRule("generated files with names carrying 1-8 address candidates (weights 0,1,2,3,7,10,100,2^32-1; all-zero, uniform and ratio shapes; A and AAAA; untagged and location-tagged; exact and wildcard owners) and NS/MX targets with several weighted addresses (also two MX records naming one host whose addresses are all of one family), on CDB/RocksDB v1/v2. Per configuration (name, type, client location, max-answer 1..8) N identical queries are sent from 16 goroutines; every response must hold <= max distinct records of the visible declared set, exactly min(max, positive-weight candidates) of them, never a weight-0 one, with NOERROR while the name has records; a handler with the response cache on is asked with max-answer 8, 1, 3, 8, 2 in turn (listeners with different settings share one handler) and must respect each. For max=1 and for additional-section addresses the selection counts are tested against w_i/sum(w) with a chi-square test, alarm only below p=1e-9. non-trivial = configuration with >=2 visible candidates; distinct by configuration")
	r.Assume("statistical part: false-alarm probability < 1e-9 per tested configuration; a single short/weight-0 response per configuration (the implementation's 2^-32 boundary draws) is re-run and only a recurrence counts")
	nworlds := r.Pick(3, 8)
	nInv := r.Pick(150, 400)
	nProp := r.Pick(20000, 120000)
	for wi := 0; wi < nworlds; wi++ {
		seed := r.Seed*3000017 + int64(wi)
		w, names, ix, servers, err := c11OpenWorld(seed)
		r.Eval(1)
		if err != nil {
			r.Violation("", "well-formed file rejected: "+err.Error(), map[string]interface{}{"world_seed": seed})
			continue
		}
		if wi == 0 {
			r.Sample(map[string]interface{}{"file": strings.Split(strings.TrimSpace(string(w.Text())), "\n")})
		}
		var cfgs []c11Config
		for ni, n := range names {
			q := n.Name
			if n.Wild {
				q = "a." + n.Name
			}
			for _, t := range []uint16{dns.TypeA, dns.TypeAAAA} {
				for ci, c := range c11Clients {
					for max := 1; max <= 8; max++ {
						sv := servers.srv[(ni+ci+max)%len(servers.srv)]
						nq := nInv
						if max == 1 {
							nq = nProp
						}
						cfgs = append(cfgs, c11Config{WorldSeed: seed, Backend: sv.B.Name, QName: q, Owner: n.Name, Wild: n.Wild, QType: t, IP: c.ip, Loc: c.loc, Max: max, N: nq})
					}
				}
			}
		}
		var mu sync.Mutex
		var wg sync.WaitGroup
		ch := make(chan c11Config)
		for g := 0; g < 16; g++ {
			wg.Add(1)
			go func() {
				defer wg.Done()
				for cfg := range ch {
					var sv *harness.Server
					for _, s := range servers.srv {
						if s.B.Name == cfg.Backend {
							sv = s
						}
					}
					cands := c11Candidates(ix, cfg.Owner, cfg.Wild, cfg.Loc, cfg.QType)
					positive := 0
					for _, c := range cands {
						if c.weight > 0 {
							positive++
						}
					}
					if cfg.Max == 1 && positive < 2 {
						cfg.N = nInv // nothing to test statistically
					}
					viol, t := c11Decide(sv, ix, cfg, r)
					mu.Lock()
					r.Eval(1)
					r.Count("responses_checked", int64(t.responses))
					r.Count(fmt.Sprintf("configs_max_%d", cfg.Max), 1)
					r.Count("configs_backend_"+cfg.Backend, 1)
					if len(cands) >= 2 {
						r.Nontrivial(fmt.Sprintf("%+v", cfg))
					}
					if len(cands) > 0 && positive == 0 {
						r.Count("configs_all_zero_weight", 1)
					}
					if len(cands) > cfg.Max {
						r.Count("configs_more_candidates_than_slots", 1)
					}
					mu.Unlock()
					if viol != "" {
						r.Violation("", fmt.Sprintf("%s %s type %d from location %q max %d: %s", cfg.Backend, cfg.QName, cfg.QType, cfg.Loc, cfg.Max, viol), cfg)
						continue
					}
					if cfg.Max == 1 && positive >= 2 {
						p, bins, detail := c11Proportional(cands, t.counts)
						mu.Lock()
						r.Count("proportionality_tests", 1)
						if bins >= 2 {
							r.Count("proportionality_tests_with_2plus_bins", 1)
						}
						if r.SampleN() < 4 {
							r.Sample(map[string]interface{}{"config": cfg, "selection": detail, "p_value": p})
						}
						mu.Unlock()
						if p < 1e-9 {
							r.Violation("", fmt.Sprintf("%s %s type %d location %q: selection is not proportional to the weights (p=%.3g): %s", cfg.Backend, cfg.QName, cfg.QType, cfg.Loc, p, detail), cfg)
						}
					}
				}
			}()
		}
		for _, c := range cfgs {
			ch <- c
		}
		close(ch)
		wg.Wait()
		// additional section: NS glue (referral) and MX target
		c11Additional(r, servers, ix, seed, nProp/2)
		c11CachedMax(r, w, names, ix, seed)
		servers.close()
		if r.Violations() >= 10 {
			break
		}
	}
	// the shared generator under the race detector
	c11Race(r)
}

// c11CachedMax: one handler with the response cache on serves listeners with different max-answer settings (as
// fbserver does): a name is asked with max-answer 8, then 1, then 3 - each response must hold min(max, positive
// candidates) addresses whatever an earlier response to another listener looked like.
func c11CachedMax(r *report.Run, w *gen.World, names []gen.WeightedName, ix *model.Index, seed int64) {
	servers, err := openAll(w.Text(), harness.ServerOpts{Cache: true})
	if err != nil {
		r.Inconclusive("cached servers: " + err.Error())
		return
	}
	defer servers.close()
	for _, sv := range servers.srv {
		for _, n := range names {
			if n.Wild {
				continue
			}
			for _, t := range []uint16{dns.TypeA, dns.TypeAAAA} {
				positive := 0
				for _, c := range c11Candidates(ix, n.Name, false, "", t) {
					if c.weight > 0 {
						positive++
					}
				}
				for _, max := range []int{8, 1, 3, 8, 2} {
					res := sv.Serve(harness.MakeQuery(gen.Presentation(n.Name), t, 7), harness.NewWriter("203.0.113.9", false), max)
					r.Count("cached_handler_responses", 1)
					if res.Msg == nil {
						continue
					}
					got := 0
					for _, rr := range res.Msg.Answer {
						if rr.Header().Rrtype == t {
							got++
						}
					}
					want := positive
					if want > max {
						want = max
					}
					if got != want {
						r.Violation("", fmt.Sprintf("%s (response cache on): %s type %d asked with max-answer %d (after other max-answer settings) holds %d addresses, prescribed %d (positive-weight candidates %d)", sv.B.Name, n.Name, t, max, got, want, positive),
							c11Config{WorldSeed: seed, Backend: sv.B.Name, QName: n.Name, QType: t, IP: "203.0.113.9", Max: max})
						return
					}
				}
			}
		}
	}
}

func c11Additional(r *report.Run, servers *c01Servers, ix *model.Index, seed int64, n int) {
	type tq struct {
		qname   string
		qtype   uint16
		targets []string
	}
	for _, q := range []tq{{"x.deleg.example.com", dns.TypeA, []string{"nsd.example.com", "nse.example.com"}}, {"mxn.example.com", dns.TypeMX, []string{"mail.example.com"}},
		{"mx2.example.com", dns.TypeMX, []string{"mail4.example.com"}}, {"mx3.example.com", dns.TypeMX, []string{"mail6.example.com", "mail.example.com"}}} {
		for ci, c := range c11Clients {
			sv := servers.srv[ci%len(servers.srv)]
			counts := map[string]map[string]int64{}
			anomalies := 0
			for i := 0; i < n; i++ {
				res := sv.Serve(harness.MakeQuery(gen.Presentation(q.qname), q.qtype, uint16(i)), harness.NewWriter(c.ip, false), 1)
				if res.Msg == nil {
					r.Violation("", "no reply to "+q.qname, nil)
					return
				}
				per := map[string]int{}
				for _, rr := range res.Msg.Extra {
					cr := harness.CanonOf(rr)
					if cr.Type != dns.TypeA && cr.Type != dns.TypeAAAA {
						continue
					}
					k := fmt.Sprintf("%s/%d", cr.Owner, cr.Type)
					per[k]++
					if counts[k] == nil {
						counts[k] = map[string]int64{}
					}
					counts[k][fmt.Sprintf("%d %d %x", cr.TTL, cr.Type, cr.Rdata)]++
				}
				for _, tgt := range q.targets {
					for _, t := range []uint16{dns.TypeA, dns.TypeAAAA} {
						cands := c11Candidates(ix, tgt, false, c.loc, t)
						positive := 0
						for _, cd := range cands {
							if cd.weight > 0 {
								positive++
							}
						}
						want := 0
						if positive > 0 {
							want = 1
						}
						if per[fmt.Sprintf("%s/%d", tgt, t)] != want {
							anomalies++
							if anomalies > 1 {
								r.Violation("", fmt.Sprintf("%s: additional section of %s holds %d type-%d addresses for %s (location %q), prescribed %d", sv.B.Name, q.qname, per[fmt.Sprintf("%s/%d", tgt, t)], t, tgt, c.loc, want), c11Config{WorldSeed: seed, Backend: sv.B.Name, QName: q.qname, QType: q.qtype, IP: c.ip, Loc: c.loc, Max: 1, N: n})
								return
							}
						}
					}
				}
			}
			r.Count("additional_section_responses", int64(n))
			for _, tgt := range q.targets {
				for _, t := range []uint16{dns.TypeA, dns.TypeAAAA} {
					cands := c11Candidates(ix, tgt, false, c.loc, t)
					got := counts[fmt.Sprintf("%s/%d", tgt, t)]
					declared := map[string]uint32{}
					positive := 0
					for _, cd := range cands {
						declared[cd.key] = cd.weight
						if cd.weight > 0 {
							positive++
						}
					}
					zeroServed := int64(0)
					for k, cnt := range got {
						w, ok := declared[k]
						if !ok {
							r.Violation("", fmt.Sprintf("%s: additional address %s for %s is not a visible declared record", sv.B.Name, k, tgt), nil)
							return
						}
						if w == 0 {
							zeroServed += cnt
						}
					}
					if zeroServed > 1 {
						r.Violation("", fmt.Sprintf("%s: weight-0 addresses of %s served %d times in the additional section", sv.B.Name, tgt, zeroServed), nil)
						return
					}
					if positive >= 2 {
						p, _, detail := c11Proportional(cands, got)
						r.Count("additional_proportionality_tests", 1)
						r.Nontrivial(fmt.Sprintf("additional %d %s %s %d %s", seed, q.qname, tgt, t, c.loc))
						if p < 1e-9 {
							r.Violation("", fmt.Sprintf("%s: additional-section address of %s (type %d, location %q) not proportional to the weights (p=%.3g): %s", sv.B.Name, tgt, t, c.loc, p, detail),
								c11Config{WorldSeed: seed, Backend: sv.B.Name, QName: q.qname, QType: q.qtype, IP: c.ip, Loc: c.loc, Max: 1, N: n})
						}
					}
				}
			}
		}
	}
}

// c11Race runs a reduced workload in the race-detector build as a child process.
func c11Race(r *report.Run) {
	res, err := runChild(true, "c11race", []string{fmt.Sprint(r.Seed), fmt.Sprint(r.Pick(300, 3000))}, 20*time.Minute)
	if err != nil {
		r.Inconclusive("race child could not run: " + err.Error())
		return
	}
	total, uniq := dedupRaces(res.RaceLogs)
	r.Count("race_detector_reports", int64(total))
	if n, ok := res.Summary["responses"].(float64); ok {
		r.Count("race_build_responses", int64(n))
	}
	if res.TimedOut {
		r.Inconclusive("race child timed out")
		return
	}
	for _, u := range uniq {
		r.Violation("", "data race while 16 goroutines use the weighted selection:\n"+u.Text, map[string]interface{}{"report": u.Text, "count": u.Count})
	}
	if res.ExitCode != 0 && total == 0 {
		if v, _ := res.Summary["violation"].(string); v != "" {
			r.Violation("", "race build: "+v, nil)
		} else {
			r.Inconclusive(fmt.Sprintf("race child exited with %d: %s", res.ExitCode, lastLines(res.Stderr, 15)))
		}
	}
}

func lastLines(s string, n int) string {
	l := strings.Split(strings.TrimSpace(s), "\n")
	if len(l) > n {
		l = l[len(l)-n:]
	}
	return strings.Join(l, "\n")
}

func c11RaceWorker(args []string) int {
	var seed int64 = 1
	n := 300
	if len(args) > 0 {
		fmt.Sscan(args[0], &seed)
	}
	if len(args) > 1 {
		fmt.Sscan(args[1], &n)
	}
	_, names, ix, servers, err := c11OpenWorld(seed*3000017 + 99)
	if err != nil {
		fmt.Println(err)
		return 2
	}
	defer servers.close()
	var wg sync.WaitGroup
	var mu sync.Mutex
	responses := 0
	viol := ""
	dummy := report.New("C11", "quick", "exploration")
	for g := 0; g < 16; g++ {
		wg.Add(1)
		go func(g int) {
			defer wg.Done()
			nm := names[g%len(names)]
			q := nm.Name
			if nm.Wild {
				q = "a." + q
			}
			cl := c11Clients[g%3]
			cfg := c11Config{Backend: servers.srv[g%3].B.Name, QName: q, Owner: nm.Name, Wild: nm.Wild, QType: []uint16{dns.TypeA, dns.TypeAAAA}[g%2], IP: cl.ip, Loc: cl.loc, Max: 1 + g%8, N: n}
			v, t := c11Decide(servers.srv[g%3], ix, cfg, dummy)
			mu.Lock()
			responses += t.responses
			if v != "" && viol == "" {
				viol = v
			}
			mu.Unlock()
		}(g)
	}
	wg.Wait()
	summary(map[string]interface{}{"responses": responses, "violation": viol})
	if viol != "" {
		return 1
	}
	return 0
}

func replayC11(r *report.Run, raw json.RawMessage) {
	var cfg c11Config
	if err := json.Unmarshal(raw, &cfg); err != nil || cfg.QName == "" {
		fmt.Println("recorded report (race or additional-section case); re-run the check with the same VERIF_SEED")
		r.Violation("", "recorded case", nil)
		return
	}
	_, _, ix, servers, err := c11OpenWorld(cfg.WorldSeed)
	if err != nil {
		r.Violation("", err.Error(), cfg)
		return
	}
	defer servers.close()
	for _, sv := range servers.srv {
		if sv.B.Name != cfg.Backend {
			continue
		}
		viol, t := c11Decide(sv, ix, cfg, r)
		fmt.Println("invariants:", viol)
		if viol != "" {
			r.Violation("", viol, cfg)
		}
		if cfg.Max == 1 {
			cands := c11Candidates(ix, cfg.Owner, cfg.Wild, cfg.Loc, cfg.QType)
			p, _, detail := c11Proportional(cands, t.counts)
			fmt.Printf("proportionality p=%.3g %s\n", p, detail)
			if p < 1e-9 {
				r.Violation("", "not proportional", cfg)
			}
		}
	}
}
