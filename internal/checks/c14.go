package checks

import (
	"encoding/json"
	"fmt"
	"math/rand"
	"runtime"
	"strings"
	"sync"
	"sync/atomic"
	"time"

	"github.com/facebookincubator/dns/dnsrocks/db"
	"github.com/facebookincubator/dns/dnsrocks/dnsserver"

	"verif/internal/harness"
	"verif/internal/report"
)

func init() {
	register("C14", "exploration", runC14, replayC14)
	Workers["c14"] = c14Worker
	Workers["c14periodic"] = c14PeriodicWorker
}

func runC14(r *report.Run) {
	r.SetRule("race-detector build, child process per run: 16 query workers (cache on, every stamped query kind, one query in six with a question type the DNS library has no name for, new ones all along the run; every other query with a randomised letter case of the name) x a reloader walking through generations (every other run with a 1 ms reload timeout so that reloads time out while still running; full reloads to new directories/files, partial reloads after a real ApplyDiff on the primary / file replacement, failing reloads: missing path, unreadable, missing validation key) x a ReportBackendStats ticker x a WatchDBAndReload watcher with a ReloadChan consumer x (in part of the runs) a WatchControlDirAndReload watcher through which the successful reloads are requested by renaming reload/switchdb files into the control directory x (RocksDB, default reload timeout) a storm of several hundred back-to-back catch-ups with nothing to catch up under 8 query workers, followed by one partial reload on the idle server that has to complete (failure + goroutines blocked in the storage package at identical frames in two dumps = violation) x (CDB, default reload timeout) a storm of back-to-back full reloads alternating between two files under 4x NumCPU acquire/lookup/release workers x shutdown while queries are parked after reader acquisition (verif hook) and resumed afterwards; plus the production wiring (NewFBDNSDB with a 1 s periodic reload) shut down while a reload is parked in progress and the next tick is already pending; on CDB, RocksDB v1 and v2; repeated. Oracle: zero race-detector reports (deduplicated by entry-point pair), no panic/fatal error, every worker completes its fixed operation count before a generous watchdog; a stand-still of the progress counters (queries, reloads, stats reports) for 20 s is examined structurally: a deadlock is reported only when in three goroutine dumps 2 s apart every goroutine inside the serving code is blocked acquiring a sync lock (at least a waiting writer and a waiting reader) or idle, none runs or sits in a system/cgo call, and the blocked stacks are identical. non-trivial = run in which queries and reloads really overlapped (measured: queries completed while a reload was in progress); distinct by (backend, repeat)")
	r.Assume("GORACE=halt_on_error=0 with log files; reports are counted from the logs, never from exit codes; a watchdog firing without a crash is inconclusive")
	repeats := r.Pick(2, 5)
	gens := r.Pick(25, 120)
	type out struct {
		b   harness.Backend
		rep int
		res *childResult
		err error
	}
	var outs []out
	var mu sync.Mutex
	var wg sync.WaitGroup
	sem := make(chan struct{}, 3)
	for rep := 0; rep < repeats; rep++ {
		for _, b := range harness.Backends {
			wg.Add(1)
			go func(b harness.Backend, rep int) {
				defer wg.Done()
				sem <- struct{}{}
				defer func() { <-sem }()
				// odd repeats use a 1 ms reload timeout: many reloads then time out while their goroutine still runs
				tmo := "0"
				if rep%2 == 1 {
					tmo = "1ms"
				}
				// runs without the short timeout request their successful reloads through the control directory on every other backend/repeat
				via := "direct"
				if tmo == "0" && (rep/2+len(b.Name)+int(r.Seed))%2 == 0 {
					via = "ctrl"
				}
				res, err := runChild(true, "c14", []string{b.Name, fmt.Sprint(r.Seed*100 + int64(rep)), fmt.Sprint(gens), tmo, via}, 25*time.Minute)
				mu.Lock()
				outs = append(outs, out{b, rep, res, err})
				mu.Unlock()
			}(b, rep)
		}
	}
	wg.Wait()
	var allLogs []string
	for _, o := range outs {
		r.Eval(1)
		if o.err != nil {
			r.Inconclusive(o.err.Error())
			continue
		}
		res := o.res
		allLogs = append(allLogs, res.RaceLogs...)
		last := ""
		if len(res.Journal) > 0 {
			last = res.Journal[len(res.Journal)-1]
		}
		if res.Summary != nil && res.Summary["deadlock"] != nil {
			r.Count("structural_deadlock_witnesses", 1)
			r.Violation("", fmt.Sprintf("%s run %d: queries, reloads and the statistics reporter are deadlocked on the handler's locks (%v): no progress, and in three dumps 2 s apart every serving goroutine is blocked acquiring a lock:\n%v", o.b.Name, o.rep, res.Summary["deadlock_at"], res.Summary["deadlock"]), map[string]interface{}{"backend": o.b.Name, "witness": res.Summary["deadlock"]})
			continue
		}
		if res.TimedOut {
			r.Inconclusive(fmt.Sprintf("%s run %d: watchdog fired (last step: %s); no structural deadlock witness taken", o.b.Name, o.rep, last))
			continue
		}
		if res.Summary == nil {
			r.Violation("", fmt.Sprintf("%s run %d: process died (exit %d) at step %q:\n%s", o.b.Name, o.rep, res.ExitCode, last, firstLines(res.Stderr, 14)), map[string]interface{}{"backend": o.b.Name, "journal_last": last})
			continue
		}
		for _, k := range []string{"reload_timeouts", "queries", "reloads", "queries_during_reload", "stats_reports", "parked_at_shutdown", "watcher_reloads", "control_file_reloads", "control_files_not_consumed", "noop_partial_reloads_under_queries", "switch_storm_full_reloads"} {
			if n, ok := res.Summary[k].(float64); ok {
				r.Count(k, int64(n))
			}
		}
		if n, _ := res.Summary["queries_during_reload"].(float64); n > 0 {
			r.Nontrivial(fmt.Sprintf("%s-%d", o.b.Name, o.rep))
		}
		if ie, _ := res.Summary["idle_reload_error"].(string); ie != "" {
			if st, _ := res.Summary["stuck_storage_goroutines"].(string); st != "" {
				r.Violation("", fmt.Sprintf("%s run %d: after %v back-to-back catch-ups under queries (storm ended by: %q) a partial reload on the IDLE server fails (%s) and goroutines are blocked inside the storage package at identical frames 2 s apart:\n%s", o.b.Name, o.rep, res.Summary["noop_partial_reloads_under_queries"], res.Summary["storm_error"], ie, firstLines(st, 30)), map[string]interface{}{"backend": o.b.Name, "stuck": st})
			} else {
				r.Inconclusive(fmt.Sprintf("%s run %d: partial reload on the idle server failed (%s) but no goroutine is stuck in the storage package", o.b.Name, o.rep, ie))
			}
		}
		if p, _ := res.Summary["panics"].(float64); p > 0 {
			r.Violation("", fmt.Sprintf("%s run %d: %v handler panics, first: %v", o.b.Name, o.rep, p, res.Summary["first_panic"]), map[string]interface{}{"backend": o.b.Name})
		}
		if r.SampleN() < 2 {
			r.Sample(map[string]interface{}{"backend": o.b.Name, "summary": res.Summary})
		}
	}
	// production wiring: periodic reload + shutdown during a reload
	if pres, err := runChild(true, "c14periodic", []string{fmt.Sprint(r.Pick(4, 12))}, 10*time.Minute); err != nil {
		r.Inconclusive("periodic child: " + err.Error())
	} else {
		allLogs = append(allLogs, pres.RaceLogs...)
		r.Eval(1)
		last := ""
		if len(pres.Journal) > 0 {
			last = pres.Journal[len(pres.Journal)-1]
		}
		switch {
		case pres.TimedOut:
			r.Inconclusive("periodic-reload shutdown child timed out at: " + last)
		case pres.Summary == nil:
			key := ""
			if strings.Contains(pres.Stderr, "send on closed channel") {
				key = "periodic-reload-send-on-closed-channel"
			}
			r.Violation(key, fmt.Sprintf("shutdown while a reload is in progress and a periodic tick is pending: process died (exit %d) at %q:\n%s", pres.ExitCode, last, firstLines(pres.Stderr, 12)), map[string]string{"journal_last": last})
		case pres.Summary["deadlock"] != nil:
			r.Violation("", fmt.Sprintf("production wiring: shutdown deadlocks (%v):\n%v", pres.Summary["deadlock_at"], pres.Summary["deadlock"]), map[string]interface{}{"witness": pres.Summary["deadlock"]})
		case pres.Summary["inconclusive"] != nil:
			r.Inconclusive(fmt.Sprint(pres.Summary["inconclusive"]))
		default:
			if n, ok := pres.Summary["attempts"].(float64); ok {
				r.Count("periodic_shutdown_attempts", int64(n))
			}
			r.Nontrivial("periodic-shutdown")
		}
	}
	total, uniq := dedupRaces(allLogs)
	r.Count("race_detector_reports", int64(total))
	r.Count("distinct_race_reports", int64(len(uniq)))
	for _, u := range uniq {
		r.Violation("", fmt.Sprintf("data race (%d reports):\n%s", u.Count, u.Text), map[string]interface{}{"report": u.Text, "count": u.Count})
	}
}

func c14Worker(args []string) int {
	bname, seed, gens := args[0], int64(1), 25
	fmt.Sscan(args[1], &seed)
	fmt.Sscan(args[2], &gens)
	var b harness.Backend
	for _, x := range harness.Backends {
		if x.Name == bname {
			b = x
		}
	}
	rng := rand.New(rand.NewSource(seed))
	opt := harness.ServerOpts{Cache: true}
	if len(args) > 3 && args[3] != "0" {
		opt.ReloadTimeout, _ = time.ParseDuration(args[3])
	}
	ctrl := ""
	if len(args) > 4 && args[4] == "ctrl" {
		ctrl = harness.NewDir("ctrl-" + b.Name)
		opt.ControlPath = ctrl
	}
	l, err := newLab(b, opt, 5000)
	if err != nil {
		fmt.Println(err)
		return 2
	}
	h := l.srv.H
	s := schedFor()
	dnsserver.SetVerifHook(s.Hook)
	var reloading int32
	var during, queries, panics, statsReports, watcherReloads int64
	var firstPanic atomic.Value
	var wg sync.WaitGroup
	const workers = 16
	perWorker := 40 * gens
	reloadDone := make(chan struct{})
	var reloadSteps int64
	watchForLockDeadlock(func() int64 {
		return atomic.LoadInt64(&queries) + atomic.LoadInt64(&statsReports) + atomic.LoadInt64(&reloadSteps) + atomic.LoadInt64(&watcherReloads)
	}, 20*time.Second, func() string { return fmt.Sprintf("%s after %d reloads", bname, atomic.LoadInt64(&reloadSteps)) })
	for c := 0; c < workers; c++ {
		wg.Add(1)
		go func(c int) {
			defer wg.Done()
			for i := 0; i < perWorker; i++ {
				select {
				case <-reloadDone:
					if i > perWorker/2 {
						return // the reloader is done; stop early, the fixed count is an upper bound
					}
				default:
				}
				inReload := atomic.LoadInt32(&reloading) != 0
				func() {
					defer func() {
						if e := recover(); e != nil {
							atomic.AddInt64(&panics, 1)
							firstPanic.CompareAndSwap(nil, fmt.Sprint(e))
						}
					}()
					sq := stampQueries[(c+i)%len(stampQueries)]
					if (c+i)%6 == 0 {
						// question types the DNS library has no name for, new ones all along the run (per-type bookkeeping
						// is created on first sight, concurrently with every other worker)
						sq.qtype = uint16(60000 + (i*workers+c)%4000)
					}
					if (c+i)%2 == 0 {
						// resolvers randomise the letter case of the names they ask (0x20): concurrent hits on one cache
						// entry in different spellings
						bs := []byte(sq.name)
						for k := range bs {
							if bs[k] >= 'a' && bs[k] <= 'z' && (k*7+i*3+c)%3 == 0 {
								bs[k] -= 32
							}
						}
						sq.name = string(bs)
					}
					l.query(100+c, sq, "w")
				}()
				atomic.AddInt64(&queries, 1)
				if inReload && atomic.LoadInt32(&reloading) != 0 {
					atomic.AddInt64(&during, 1)
				}
			}
		}(c)
	}
	// statistics reporter
	stop := make(chan struct{})
	var aux sync.WaitGroup
	aux.Add(1)
	go func() {
		defer aux.Done()
		for {
			select {
			case <-stop:
				return
			default:
			}
			h.ReportBackendStats()
			atomic.AddInt64(&statsReports, 1)
			time.Sleep(300 * time.Microsecond)
		}
	}()
	// (FBDNSDB.ValidateDbKey is a start-up helper that reads the served DB without the reload lock; the
	// property does not list it among the concurrent activities, so it is not part of this workload)
	// file watcher + consumer of the reload channel, as the production constructor wires them
	go func() {
		for sig := range h.ReloadChan {
			atomic.AddInt32(&reloading, 1)
			h.Reload(sig)
			atomic.AddInt32(&reloading, -1)
			atomic.AddInt64(&watcherReloads, 1)
		}
	}()
	go h.WatchDBAndReload()
	if ctrl != "" {
		// the operator's way in: successful reloads of this run are requested through control files
		go h.WatchControlDirAndReload()
		time.Sleep(50 * time.Millisecond) // let the watcher register the directory
		l.viaControl = ctrl
	}
	kinds := []string{"full-ok", "partial-ok", "partial-ok", "full-missing-path", "full-novalidation", "full-unreadable", "full-ok", "full-back-ok", "full-same-ok"}
	nreload, ctrlReloads, ctrlStuck := 0, 0, 0
	for g := 0; g < gens; g++ {
		k := kinds[rng.Intn(len(kinds))]
		journal("%s reload %d %s", bname, g, k)
		atomic.AddInt32(&reloading, 1)
		ok, _, err := l.reload(k)
		atomic.AddInt32(&reloading, -1)
		if err != nil {
			fmt.Println("prepare:", err)
		}
		if l.viaControl != "" && (k == "full-ok" || k == "partial-ok") {
			if ok {
				ctrlReloads++
			} else {
				ctrlStuck++
			}
		}
		nreload++
		atomic.AddInt64(&reloadSteps, 1)
		time.Sleep(time.Duration(rng.Intn(1500)) * time.Microsecond)
	}
	close(reloadDone)
	wg.Wait()
	// catch-up storm (RocksDB, runs with the default reload timeout): partial reloads that have nothing to catch up,
	// back to back, while 8 workers query - every one switches the backend's shared iterator pool off and on under
	// the queries. A reload error ends the storm; then the server is left idle and one more partial reload is made:
	// on an idle, healthy server it has to complete. If it does not AND a goroutine sits blocked inside the storage
	// package at identical frames in two dumps 2 s apart, something a query left behind is still waited for.
	noopReloads, stormErr, idleErr, stuck := 0, "", "", ""
	if b.Driver == "rocksdb" && opt.ReloadTimeout == 0 {
		journal("%s catch-up storm", bname)
		var stormStop int32
		var swg sync.WaitGroup
		for c := 0; c < 8; c++ {
			swg.Add(1)
			go func(c int) {
				defer swg.Done()
				for i := 0; atomic.LoadInt32(&stormStop) == 0; i++ {
					func() {
						defer func() {
							if e := recover(); e != nil {
								atomic.AddInt64(&panics, 1)
								firstPanic.CompareAndSwap(nil, fmt.Sprint(e))
							}
						}()
						l.query(300+c, stampQueries[(c+i)%len(stampQueries)], "s")
					}()
					atomic.AddInt64(&queries, 1)
				}
			}(c)
		}
		for i := 0; i < 400*gens/25+200; i++ {
			if err := h.Reload(*dnsserver.NewPartialReloadSignal()); err != nil {
				stormErr = err.Error()
				break
			}
			noopReloads++
			atomic.AddInt64(&reloadSteps, 1)
		}
		atomic.StoreInt32(&stormStop, 1)
		swg.Wait()
		journal("%s idle reload after the storm", bname)
		if err := h.Reload(*dnsserver.NewPartialReloadSignal()); err != nil {
			idleErr = err.Error()
			a := storageGoroutines()
			time.Sleep(2 * time.Second)
			bb := storageGoroutines()
			if len(a) > 0 && strings.Join(a, "\n") == strings.Join(bb, "\n") {
				stuck = strings.Join(a, "\n\n")
			}
		}
		atomic.AddInt64(&reloadSteps, 1)
	}
	// switch storm (CDB, runs with the default reload timeout): two files, full reloads alternating between them back to
	// back, while 4x NumCPU workers acquire a reader, look one name up and release it. A reader handed out for a file
	// that is unmapped under it crashes the process (the parent reports the death of the child).
	switches := 0
	if b.Driver == "cdb" && opt.ReloadTimeout == 0 {
		journal("%s switch storm", bname)
		pa, ea := l.compileGen(l.newGen(), true)
		pb, eb := l.compileGen(l.newGen(), true)
		if ea == nil && eb == nil {
			old := runtime.GOMAXPROCS(4 * runtime.NumCPU())
			var stormStop int32
			var swg sync.WaitGroup
			name := []byte("\x07example\x03com\x00")
			for c := 0; c < 4*runtime.NumCPU(); c++ {
				swg.Add(1)
				go func() {
					defer swg.Done()
					for atomic.LoadInt32(&stormStop) == 0 {
						rd, err := h.AcquireReader()
						if err != nil {
							continue
						}
						rd.IsAuthoritative(name, &db.Location{})
						rd.Close()
						atomic.AddInt64(&queries, 1)
					}
				}()
			}
			for i := 0; i < 60*gens; i++ {
				p := pa
				if i%2 == 1 {
					p = pb
				}
				if err := h.Reload(*dnsserver.NewFullReloadSignal(p)); err != nil {
					fmt.Println("switch storm reload:", err)
					break
				}
				switches++
				atomic.AddInt64(&reloadSteps, 1)
			}
			atomic.StoreInt32(&stormStop, 1)
			swg.Wait()
			runtime.GOMAXPROCS(old)
			l.path = pa
			if switches%2 == 0 {
				l.path = pb
			}
		}
	}
	// shutdown while queries are parked right after reader acquisition
	journal("%s shutdown with parked queries", bname)
	var parks []interface{ Release() }
	var pwg sync.WaitGroup
	parked := 0
	for i := 0; i < 4; i++ {
		id := fmt.Sprintf("P%d", i)
		p := s.ParkAt("q:acquired", matchQuery(id))
		pwg.Add(1)
		go func(i int, id string) {
			defer pwg.Done()
			defer func() {
				if e := recover(); e != nil {
					atomic.AddInt64(&panics, 1)
					firstPanic.CompareAndSwap(nil, fmt.Sprint(e))
				}
			}()
			l.query(200+i, stampQueries[i%len(stampQueries)], id)
		}(i, id)
		if p.Arrived(10 * time.Second) {
			parked++
		}
		parks = append(parks, p)
	}
	close(stop)
	aux.Wait()
	h.Close()
	for _, p := range parks {
		p.Release()
	}
	pwg.Wait()
	dnsserver.SetVerifHook(nil)
	timeouts := l.srv.Stats.Snapshot()["DNS_db.ErrReloadTimeout"]
	l.srv = nil
	time.Sleep(300 * time.Millisecond) // let timed-out reload goroutines finish before the scratch directory goes away
	l.close()
	fp, _ := firstPanic.Load().(string)
	summary(map[string]interface{}{"queries": atomic.LoadInt64(&queries), "reloads": nreload, "queries_during_reload": atomic.LoadInt64(&during),
		"stats_reports": atomic.LoadInt64(&statsReports), "reload_timeouts": timeouts, "parked_at_shutdown": parked, "watcher_reloads": atomic.LoadInt64(&watcherReloads),
		"panics": atomic.LoadInt64(&panics), "first_panic": fp, "control_file_reloads": ctrlReloads, "control_files_not_consumed": ctrlStuck,
		"noop_partial_reloads_under_queries": noopReloads, "switch_storm_full_reloads": switches, "storm_error": stormErr, "idle_reload_error": idleErr, "stuck_storage_goroutines": stuck})
	return 0
}

// c14PeriodicWorker: the production wiring (NewFBDNSDB with a periodic reload) shut down while a reload is in
// progress and the next periodic tick is already waiting to be delivered.
func c14PeriodicWorker(args []string) int {
	attempts := 4
	if len(args) > 0 {
		fmt.Sscan(args[0], &attempts)
	}
	done := 0
	for a := 0; a < attempts; a++ {
		b := harness.Backends[a%len(harness.Backends)]
		dir := harness.NewDir("periodic")
		lines := genLines(7000+a, true)
		path := dir + "/db"
		var err error
		if b.Driver == "cdb" {
			path = dir + "/db.cdb"
			err = harness.CompileCDB([]byte(strings.Join(lines, "\n")+"\n"), path, 1)
		} else {
			err = harness.CompileRDB([]byte(strings.Join(lines, "\n")+"\n"), path, harness.RDBOpts{V2: b.V2, BatchSize: 1000, BatchParallel: 1, NumCPU: 1})
		}
		if err != nil {
			fmt.Println(err)
			return 2
		}
		s := schedFor()
		dnsserver.SetVerifHook(s.Hook)
		h, err := dnsserver.NewFBDNSDB(dnsserver.HandlerConfig{}, dnsserver.DBConfig{Path: path, Driver: b.Driver, ReloadInterval: 1, ReloadTimeout: 10 * time.Second},
			dnsserver.CacheConfig{}, &harness.Logger{}, harness.NewStats())
		if err != nil {
			fmt.Println(err)
			return 2
		}
		if err := h.Load(); err != nil {
			fmt.Println(err)
			return 2
		}
		journal("attempt %d %s: waiting for the first periodic reload", a, b.Name)
		p := s.ParkAt("r:locked", matchReload)
		if !p.Arrived(5 * time.Second) {
			fmt.Println("periodic reload never started")
			p.Release()
			h.Close()
			continue
		}
		time.Sleep(1200 * time.Millisecond) // the next tick is now waiting to be delivered
		journal("attempt %d %s: shutdown requested while the reload is in progress and a tick is pending", a, b.Name)
		closed := make(chan struct{})
		go func() { h.Close(); close(closed) }()
		time.Sleep(50 * time.Millisecond)
		p.Release()
		select {
		case <-closed:
		case <-time.After(90 * time.Second):
			// wall-clock alone decides nothing: a structural witness makes it a deadlock, otherwise it is inconclusive
			var zero int64
			if w := lockDeadlockWitness(func() int64 { return atomic.LoadInt64(&zero) }); w != "" {
				summary(map[string]interface{}{"deadlock": w, "deadlock_at": fmt.Sprintf("attempt %d %s: shutdown while a reload is in progress", a, b.Name)})
				return 68
			}
			summary(map[string]interface{}{"inconclusive": fmt.Sprintf("attempt %d %s: shutdown had not returned after 90 s, no structural deadlock witness", a, b.Name), "attempts": done})
			return 0
		}
		time.Sleep(300 * time.Millisecond)
		dnsserver.SetVerifHook(nil)
		done++
		harness.Remove(dir)
	}
	summary(map[string]interface{}{"attempts": done})
	return 0
}

func replayC14(r *report.Run, raw json.RawMessage) {
	var c map[string]interface{}
	json.Unmarshal(raw, &c)
	if rep, ok := c["report"].(string); ok {
		fmt.Println(rep)
	}
	fmt.Println("race reports depend on the schedule; re-run `./run.sh C14 quick` (or thorough) to look for the report again")
	if strings.Contains(fmt.Sprint(c), "DATA RACE") {
		r.Violation("", "recorded race report", nil)
	}
}
