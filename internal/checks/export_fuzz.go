package checks

import (
	"bytes"
	"fmt"
	"github.com/facebookincubator/dns/dnsrocks/dnsdata/quote"
	"math/rand"
	"sync"

	"github.com/facebookincubator/dns/dnsrocks/dnsdata/svcb"
	"github.com/miekg/dns"

	"verif/internal/gen"
	"verif/internal/harness"
)

// Entry points for the native fuzz targets in /verif/fuzz (thorough tier of C13, C17, C18).

// FuzzQuoteOne applies C17's oracle to one byte string.
func FuzzQuoteOne(b []byte) string {
	if fuzzHeldQ != nil && !bytes.Equal(fuzzHeldQ, fuzzHeldCopy) {
		return fmt.Sprintf("a held quoted form %q changed to %q while other strings were quoted", fuzzHeldCopy, fuzzHeldQ)
	}
	msg := c17One(b)
	fuzzHeldQ = quote.Bquote(append([]byte{}, b...))
	fuzzHeldCopy = append([]byte{}, fuzzHeldQ...)
	return msg
}

// the quoted form of the previous fuzz input, held across calls (one fuzz worker process runs its inputs sequentially)
var fuzzHeldQ, fuzzHeldCopy []byte

// FuzzSvcbOne applies the input-independent part of C18's oracle to arbitrary parameter text:
// an accepted list must emit conformant wire data that survives print->parse.
func FuzzSvcbOne(text []byte) (msg string) {
	defer func() {
		if e := recover(); e != nil {
			msg = fmt.Sprintf("parameter code panics on %q: %v", text, e)
		}
	}()
	if bytes.ContainsAny(text, ",:\n") {
		return "" // cannot appear in a data-file field
	}
	var pl svcb.ParamList
	if err := pl.FromText(append([]byte{}, text...)); err != nil {
		return ""
	}
	var w bytes.Buffer
	if err := pl.ToWire(&w); err != nil {
		return fmt.Sprintf("ToWire(%q): %v", text, err)
	}
	if _, err := c18Walk(w.Bytes()); err != nil {
		return fmt.Sprintf("accepted list %q emits non-conformant wire data %x: %v", text, w.Bytes(), err)
	}
	var t bytes.Buffer
	pl.ToText(&t)
	var pl2 svcb.ParamList
	if err := pl2.FromText(append([]byte{}, t.Bytes()...)); err != nil {
		if bytes.Contains(t.Bytes(), []byte("ipv6hint")) && bytes.Contains([]byte(err.Error()), []byte("not a valid IPv6 address")) {
			return "" // open finding ipv6hint-v4mapped-text
		}
		return fmt.Sprintf("accepted list %q prints as %q which is rejected: %v", text, t.String(), err)
	}
	var w2 bytes.Buffer
	pl2.ToWire(&w2)
	if !bytes.Equal(w.Bytes(), w2.Bytes()) {
		return fmt.Sprintf("accepted list %q prints as %q which compiles to %x instead of %x", text, t.String(), w2.Bytes(), w.Bytes())
	}
	return ""
}

var (
	fuzzSrvOnce sync.Once
	fuzzSrv     []*harness.Server
)

// FuzzInit builds the databases the wire fuzz target queries (called from TestMain of every fuzz worker,
// so that the time is not charged to the first input).
func FuzzInit() { fuzzServers() }

func fuzzServers() []*harness.Server {
	fuzzSrvOnce.Do(func() {
		cfgs := []c02Config{c02Configs[0], c02Configs[4], c02Configs[5]} // cdb, rdb1 and rdb2 through the batch compiler (cheap)
		for li, layout := range []int{1, 5, 8, 9} {                      // nested zones, root zone, root delegation, empty file
			w := gen.GenWorld(rand.New(rand.NewSource(int64(4200+li))), gen.WorldOpts{Layout: layout})
			opened, _, err := c02Open(w.Text(), cfgs)
			if err != nil {
				panic(err)
			}
			for _, o := range opened {
				fuzzSrv = append(fuzzSrv, o.srv)
			}
		}
	})
	return fuzzSrv
}

// FuzzWireOne feeds raw bytes (if they unpack as a DNS message and pack again) to handlers of four database
// layouts on all three backends and applies C13's oracle.
func FuzzWireOne(data []byte, sel uint8) string {
	q := new(dns.Msg)
	if err := q.Unpack(data); err != nil {
		return ""
	}
	if _, err := q.Pack(); err != nil {
		return ""
	}
	srvs := fuzzServers()
	sv := srvs[int(sel)%len(srvs)]
	tcp := sel&0x80 != 0
	res := sv.Serve(q.Copy(), harness.NewWriter("203.0.113.9", tcp), 1+int(sel>>4)%8)
	msg, key := c13Check(q, res, tcp)
	if key != "" {
		return ""
	}
	if msg != "" {
		return fmt.Sprintf("%s: %s", sv.B.Name, msg)
	}
	return ""
}
