package checks

import (
	"encoding/hex"
	"encoding/json"
	"fmt"
	"math/rand"
	"strings"
	"sync"
	"sync/atomic"
	"time"

	"github.com/facebookincubator/dns/dnsrocks/db"
	"github.com/miekg/dns"

	"verif/internal/gen"
	"verif/internal/harness"
	"verif/internal/report"
)

func init() {
	register("C13", "exploration", runC13, replayC13)
	Workers["c13conc"] = c13ConcWorker
}

// c13ConcWorker: the hostile messages again, now from 16 goroutines at once against the same handlers (a handler
// goroutine that dies with a fatal runtime error takes the whole server down: the parent sees the process die).
func c13ConcWorker(args []string) int {
	var seed int64 = 1
	per := 2000
	fmt.Sscan(args[0], &seed)
	fmt.Sscan(args[1], &per)
	w := c13World(seed, int(seed%7))
	servers, err := openAll(w.Text(), harness.ServerOpts{Cache: seed%2 == 0})
	if err != nil {
		fmt.Println(err)
		return 2
	}
	var wg sync.WaitGroup
	var mu sync.Mutex
	var viol []string
	var msgs int64
	for g := 0; g < 16; g++ {
		wg.Add(1)
		go func(g int) {
			defer wg.Done()
			rng := rand.New(rand.NewSource(seed*1000 + int64(g)))
			for n := 0; n < per; n++ {
				q, _ := gen.HostileMsg(rng, w.Owners)
				if q == nil {
					continue
				}
				tcp := rng.Intn(4) == 0
				sv := servers.srv[rng.Intn(len(servers.srv))]
				if n%64 == 0 {
					journal("goroutine %d message %d on %s", g, n, sv.B.Name)
				}
				res := sv.Serve(q.Copy(), harness.NewWriter("10.1.0.5", tcp), 1+rng.Intn(8))
				atomic.AddInt64(&msgs, 1)
				if msg, _ := c13Check(q, res, tcp); msg != "" {
					mu.Lock()
					if len(viol) < 5 {
						viol = append(viol, fmt.Sprintf("%s: %s; query: %s", sv.B.Name, msg, strings.ReplaceAll(q.String(), "\n", " | ")))
					}
					mu.Unlock()
				}
			}
		}(g)
	}
	wg.Wait()
	servers.close()
	summary(map[string]interface{}{"messages": msgs, "violations": viol})
	return 0
}

type c13Case struct {
	Cache     bool   `json:"cache"`
	WorldSeed int64  `json:"world_seed"`
	Layout    int    `json:"layout"`
	Backend   string `json:"backend"`
	QueryHex  string `json:"query_hex"`
	Query     string `json:"query_text"`
	IP        string `json:"ip"`
	TCP       bool   `json:"tcp"`
}

// advertised returns the size a UDP client can take.
func c13Advertised(q *dns.Msg, tcp bool) int {
	if tcp {
		return 65535
	}
	size := 512
	if o := q.IsEdns0(); o != nil {
		if int(o.UDPSize()) > size {
			size = int(o.UDPSize())
		}
	}
	return size
}

// c13Check applies the oracle to one served message; "" = conforms.
func c13Check(q *dns.Msg, res harness.Result, tcp bool) (msg string, key string) {
	if res.Panic != "" {
		return "handler panicked: " + res.Panic, ""
	}
	if res.Writes > 1 {
		return fmt.Sprintf("handler wrote %d messages for one query", res.Writes), ""
	}
	if res.Msg == nil {
		return "", "" // no reply is allowed
	}
	if res.PackEr != nil {
		return "reply does not pack: " + res.PackEr.Error(), ""
	}
	back := new(dns.Msg)
	if err := back.Unpack(res.Wire); err != nil {
		return "reply does not unpack: " + err.Error(), ""
	}
	if !back.Response {
		return "reply without QR bit", ""
	}
	if back.Id != q.Id {
		return fmt.Sprintf("reply id %d, query id %d", back.Id, q.Id), ""
	}
	o := q.IsEdns0()
	badvers := o != nil && o.Version() != 0
	// question echo: the first question of the query (none if the query had none)
	var wantQ []dns.Question
	if len(q.Question) > 0 {
		wantQ = q.Question[:1]
	}
	sameQ := len(back.Question) == len(wantQ)
	if sameQ && len(wantQ) == 1 {
		g, w := back.Question[0], wantQ[0]
		sameQ = g.Name == w.Name && g.Qtype == w.Qtype && g.Qclass == w.Qclass // verbatim, letter case included
	}
	if !sameQ {
		k := ""
		if badvers && len(back.Question) == 0 {
			k = "badvers-no-question"
		}
		return fmt.Sprintf("reply question %v, query question %v", back.Question, wantQ), k
	}
	if adv := c13Advertised(q, tcp); len(res.Wire) > adv {
		if !back.Truncated {
			return fmt.Sprintf("reply of %d bytes exceeds the advertised %d bytes without TC", len(res.Wire), adv), ""
		}
		// a reply that was truncated for the client's buffer has to fit that buffer
		return fmt.Sprintf("truncated reply (TC set) of %d bytes still exceeds the advertised %d bytes", len(res.Wire), adv), ""
	}
	if badvers {
		if back.Rcode != dns.RcodeBadVers {
			return fmt.Sprintf("EDNS version %d answered with rcode %d, not BADVERS", o.Version(), back.Rcode), ""
		}
	}
	return "", ""
}

func c13World(seed int64, layout int) *gen.World {
	return gen.GenWorld(rand.New(rand.NewSource(seed)), gen.WorldOpts{Layout: layout})
}

// c13StripUnknown removes EDNS options the server does not know (everything but ECS, cookie, NSID...); used for the
// "unknown options are ignored" twin query.
func c13StripUnknown(q *dns.Msg) (*dns.Msg, bool) {
	t := q.Copy()
	changed := false
	for _, rr := range t.Extra {
		if o, ok := rr.(*dns.OPT); ok {
			var keep []dns.EDNS0
			for _, op := range o.Option {
				if l, ok := op.(*dns.EDNS0_LOCAL); ok && l.Code >= 65001 {
					changed = true
					continue
				}
				keep = append(keep, op)
			}
			o.Option = keep
		}
	}
	return t, changed
}

func runC13(r *report.Run) {
	r.SetRule("seeded hostile but wire-valid messages (every message is packed and unpacked first): names incl. root, 63-byte labels, 255-byte names, escapes, wildcard labels and names of the loaded file; 24 qtypes incl. DS/ANY/OPT/AXFR/0/65535; 9 classes; opcodes and header bits; 0-3 questions; 0-3 OPT records, EDNS versions 0-255, UDP sizes 0-65535, DO, extended rcode, option lists with unknown codes and empty payloads, ECS family 0/1/2/3/65535 with any source/scope and host bits set; stray records. Sent over UDP and TCP writers to handlers loaded with generated files of every layout (incl. root zone, root delegation, TLD zone, empty file) on CDB, RocksDB v1 and v2. non-trivial = message that got a reply other than plain REFUSED, or that carries EDNS; distinct by wire bytes+database; one question in ten carries a type the DNS library has no mnemonic for; the same kind of messages is then sent from 16 goroutines at once to shared handlers in a child process (a fatal runtime error there is the violation); names whose answers exceed small buffers (one 600-1400 byte TXT, 30 TXT records) are asked over UDP with buffer sizes 0/512/513/600/900/1232/1500/4096, with and without a client-subnet option: every reply, truncated or not, has to fit the advertised size")
	r.Assume("a query with several questions is answered for its first question (the repository's own TestDNSDBMultipleQuestions pins that); the unknown-option rule is checked by re-sending the query without private-use option codes and comparing the replies")
	nworlds := r.Pick(20, 400)
	perWorld := r.Pick(600, 1500)
	for i := 0; i < nworlds; i++ {
		seed := r.Seed*9000011 + int64(i)
		layout := -1
		if i < 10 {
			layout = i
		}
		w := c13World(seed, layout)
		rng := rand.New(rand.NewSource(seed ^ 0x1234567))
		// every other database is served with the response cache on (replies from the cache are replies too)
		cacheOn := i%2 == 1
		servers, err := openAll(w.Text(), harness.ServerOpts{Cache: cacheOn})
		r.Eval(1)
		if err != nil {
			r.Violation("", "well-formed file rejected: "+err.Error(), c13Case{WorldSeed: seed, Layout: layout})
			continue
		}
		r.Count("databases_"+layoutName(w), 1)
		if cacheOn {
			r.Count("databases_with_cache_on", 1)
		}
		ips := []string{"10.1.0.5", "203.0.113.9", "2001:db8:1::5", "::1"}
		// directed: the names whose answers do not fit small buffers, asked over UDP with every buffer size around the
		// limits and with/without a client-subnet option (the echoed option counts against the buffer as well)
		for _, o := range w.Owners {
			if !strings.HasPrefix(o, "huge.") && !strings.HasPrefix(o, "many.") && o != "huge" && o != "many" {
				continue
			}
			for _, sz := range []int{0, 512, 513, 600, 900, 1232, 1500, 4096} {
				for _, ecs := range []string{"", "198.51.1.0/24", "2001:db8:e1::/48"} {
					q := harness.MakeQuery(gen.Presentation(o), dns.TypeTXT, uint16(sz))
					if sz > 0 || ecs != "" {
						size := sz
						if size == 0 {
							size = 512
						}
						harness.AddECS(q, ecs, uint16(size))
					}
					for _, sv := range servers.srv {
						res := sv.Serve(q.Copy(), harness.NewWriter("10.1.0.5", false), 8)
						r.Count("messages", 1)
						r.Count("directed_oversized_queries", 1)
						if res.Msg != nil && res.Msg.Truncated {
							r.Count("truncated_replies", 1)
							if ecs != "" {
								r.Count("truncated_replies_to_queries_with_client_subnet", 1)
							}
						}
						if msg, key := c13Check(q, res, false); msg != "" {
							wire, _ := q.Pack()
							r.Violation(key, fmt.Sprintf("%s (%s): %s; query: %s", sv.B.Name, layoutName(w), msg, strings.ReplaceAll(q.String(), "\n", " | ")),
								c13Case{Cache: cacheOn, WorldSeed: seed, Layout: layout, Backend: sv.B.Name, QueryHex: hex.EncodeToString(wire), Query: q.String(), IP: "10.1.0.5", TCP: false})
						}
					}
				}
			}
		}
		for n := 0; n < perWorld; n++ {
			q, wire := gen.HostileMsg(rng, w.Owners)
			if q == nil {
				r.Count("discarded_not_wire_valid", 1)
				continue
			}
			ip := ips[rng.Intn(len(ips))]
			tcp := rng.Intn(4) == 0
			sv := servers.srv[rng.Intn(len(servers.srv))]
			res := sv.Serve(q.Copy(), harness.NewWriter(ip, tcp), 1+rng.Intn(8))
			r.Count("messages", 1)
			r.Count("backend_"+sv.B.Name, 1)
			if res.Msg == nil {
				r.Count("no_reply", 1)
			} else {
				r.Count(fmt.Sprintf("reply_rcode_%d", res.Msg.Rcode), 1)
				if res.Msg.Truncated {
					r.Count("truncated_replies", 1)
					if db.FindECS(q) != nil {
						r.Count("truncated_replies_to_queries_with_client_subnet", 1)
					}
				}
			}
			if q.IsEdns0() != nil || (res.Msg != nil && res.Msg.Rcode != dns.RcodeRefused) {
				r.Nontrivial(fmt.Sprintf("%d/%s/%x", seed, sv.B.Name, wire))
			}
			if r.SampleN() < 5 && q.IsEdns0() != nil && n%50 == 7 {
				r.Sample(strings.ReplaceAll(q.String(), "\n", " | "))
			}
			c := c13Case{Cache: cacheOn, WorldSeed: seed, Layout: layout, Backend: sv.B.Name, QueryHex: hex.EncodeToString(wire), Query: q.String(), IP: ip, TCP: tcp}
			if msg, key := c13Check(q, res, tcp); msg != "" {
				r.Violation(key, fmt.Sprintf("%s (%s): %s; query: %s", sv.B.Name, layoutName(w), msg, strings.ReplaceAll(q.String(), "\n", " | ")), c)
				continue
			}
			// unknown options are ignored: twin without them must get the same reply (OPT content aside)
			if twin, changed := c13StripUnknown(q); changed && res.Msg != nil {
				res2 := sv.Serve(twin, harness.NewWriter(ip, tcp), 64)
				res1 := sv.Serve(q.Copy(), harness.NewWriter(ip, tcp), 64)
				r.Count("unknown_option_twins", 1)
				if res1.Msg != nil && res2.Msg != nil {
					a, b := harness.CanonMsg(res1.Msg), harness.CanonMsg(res2.Msg)
					a.OPT, b.OPT = "", ""
					if a.Full(false) != b.Full(false) {
						r.Violation("", fmt.Sprintf("%s: unknown EDNS options change the reply:\n%s\n--- without them:\n%s", sv.B.Name, a.Full(false), b.Full(false)), c)
					}
				} else if (res1.Msg == nil) != (res2.Msg == nil) {
					r.Violation("", sv.B.Name+": unknown EDNS options decide whether a reply is sent", c)
				}
			}
		}
		for _, sv := range servers.srv {
			r.Count("replies_served_from_cache", sv.Stats.Snapshot()["DNS_cache.hit"])
		}
		servers.close()
		if r.Violations() >= 15 {
			break
		}
	}
	// the same kind of messages from 16 goroutines at once, in a child process
	for i := 0; i < r.Pick(2, 8); i++ {
		res, err := runChild(false, "c13conc", []string{fmt.Sprint(r.Seed*10 + int64(i)), fmt.Sprint(r.Pick(1500, 6000))}, 15*time.Minute)
		r.Eval(1)
		if err != nil {
			r.Inconclusive("concurrent child: " + err.Error())
			continue
		}
		last := ""
		if len(res.Journal) > 0 {
			last = res.Journal[len(res.Journal)-1]
		}
		switch {
		case res.TimedOut:
			r.Inconclusive("concurrent child timed out at: " + last)
		case res.Summary == nil:
			r.Violation("", fmt.Sprintf("16 goroutines sending wire-valid messages: the server process died (exit %d) near %q:\n%s", res.ExitCode, last, firstLines(res.Stderr, 12)), map[string]interface{}{"concurrent_seed": r.Seed*10 + int64(i)})
		default:
			if n, ok := res.Summary["messages"].(float64); ok {
				r.Count("messages_sent_concurrently", int64(n))
			}
			if vs, ok := res.Summary["violations"].([]interface{}); ok {
				for _, v := range vs {
					r.Violation("", fmt.Sprintf("concurrent phase: %v", v), map[string]interface{}{"concurrent_seed": r.Seed*10 + int64(i)})
				}
			}
			r.Nontrivial(fmt.Sprintf("concurrent-%d", i))
		}
	}
	if r.Thorough() {
		runNativeFuzz(r, "FuzzWire", 1500000)
	}
}

func replayC13(r *report.Run, raw json.RawMessage) {
	var c c13Case
	if err := json.Unmarshal(raw, &c); err != nil {
		r.Inconclusive(err.Error())
		return
	}
	w := c13World(c.WorldSeed, c.Layout)
	servers, err := openAll(w.Text(), harness.ServerOpts{Cache: c.Cache})
	if err != nil {
		r.Violation("", err.Error(), c)
		return
	}
	defer servers.close()
	if c.Cache {
		fmt.Println("note: the recorded reply came from a handler with the response cache on; it may depend on earlier queries of the run")
	}
	wire, _ := hex.DecodeString(c.QueryHex)
	q := new(dns.Msg)
	if err := q.Unpack(wire); err != nil {
		r.Inconclusive("query does not unpack: " + err.Error())
		return
	}
	for _, sv := range servers.srv {
		if sv.B.Name != c.Backend {
			continue
		}
		res := sv.Serve(q.Copy(), harness.NewWriter(c.IP, c.TCP), 4)
		msg, _ := c13Check(q, res, c.TCP)
		fmt.Printf("%s: %s\n", sv.B.Name, msg)
		if msg != "" {
			r.Violation("", msg, c)
		}
	}
}
