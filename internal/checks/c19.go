package checks

import (
	"encoding/json"
	"fmt"
	"math/rand"
	"sort"
	"strings"
	"sync"
	"sync/atomic"
	"time"

	"github.com/facebookincubator/dns/dnsrocks/metrics"
	"github.com/miekg/dns"

	"verif/internal/gen"
	"verif/internal/harness"
	"verif/internal/report"
)

func init() {
	register("C19", "exploration", runC19, replayC19)
	Workers["c19counters"] = c19CountersWorker
}

// ---- (a) handler counters and logger vs the response actually sent ----

func c19Delta(before, after map[string]int64) map[string]int64 {
	d := map[string]int64{}
	for k, v := range after {
		if v != before[k] {
			d[k] = v - before[k]
		}
	}
	return d
}

var c19LocationCounters = []string{"DNS_location.ecs", "DNS_location.empty", "DNS_location.default", "DNS_location.fallback_default", "DNS_location.resolver"}

func c19TypeKey(t uint16) string {
	if s, ok := dns.TypeToString[t]; ok {
		return "DNS_query." + s
	}
	return fmt.Sprintf("DNS_query.TYPE%d", t)
}

// c19CheckQuery serves one query and relates counter deltas and logger calls to what was written.
func c19CheckQuery(sv *harness.Server, q *dns.Msg, ip string, tcp bool, cacheOn bool, maxAns int) string {
	before := sv.Stats.Snapshot()
	sv.Logger.Take()
	w := harness.NewWriter(ip, tcp)
	res := sv.Serve(q.Copy(), w, maxAns)
	if res.Panic != "" {
		return "" // C13's business
	}
	d := c19Delta(before, sv.Stats.Snapshot())
	logs := sv.Logger.Take()
	var qtype uint16
	if len(q.Question) > 0 {
		qtype = q.Question[0].Qtype
	}
	if d["DNS_queries"] != 1 {
		return fmt.Sprintf("DNS_queries moved by %d for one query", d["DNS_queries"])
	}
	if d[c19TypeKey(qtype)] != 1 {
		return fmt.Sprintf("type counter %s moved by %d for one query (deltas %v)", c19TypeKey(qtype), d[c19TypeKey(qtype)], d)
	}
	for k, v := range d {
		if strings.HasPrefix(k, "DNS_query.") && k != c19TypeKey(qtype) && v != 0 {
			return fmt.Sprintf("foreign type counter %s moved by %d", k, v)
		}
	}
	m := res.Msg
	composed := m != nil && m.Rcode != dns.RcodeServerFailure
	want := map[string]int64{}
	if composed {
		if !m.Authoritative {
			want["DNS_queries_notauthoritative"] = 1
		}
		switch {
		case m.Rcode == dns.RcodeNameError:
			want["DNS_queries_nxdomain"] = 1
		case m.Rcode == dns.RcodeRefused:
			want["DNS_queries_refused"] = 1
		case m.Rcode == dns.RcodeBadVers:
			want["DNS_queries_badvers"] = 1
		case m.Rcode == dns.RcodeSuccess && len(m.Answer) == 0:
			want["DNS_queries_nodata"] = 1
		}
	}
	for _, k := range []string{"DNS_queries_notauthoritative", "DNS_queries_nxdomain", "DNS_queries_refused", "DNS_queries_badvers", "DNS_queries_nodata"} {
		if d[k] != want[k] {
			sent := "nothing"
			if m != nil {
				sent = fmt.Sprintf("rcode %d AA=%v answers=%d", m.Rcode, m.Authoritative, len(m.Answer))
			}
			return fmt.Sprintf("%s moved by %d, the response sent (%s) dictates %d", k, d[k], sent, want[k])
		}
	}
	// location class: exactly one, once the location stage was passed
	nloc := int64(0)
	for _, k := range c19LocationCounters {
		nloc += d[k]
	}
	passedLocation := composed && m.Rcode != dns.RcodeBadVers
	if passedLocation && nloc != 1 {
		return fmt.Sprintf("%d location-class counters moved for one answered query (deltas %v)", nloc, d)
	}
	if nloc > 1 {
		return fmt.Sprintf("%d location-class counters moved", nloc)
	}
	// cache: hit xor miss (or expired) when enabled
	nc := d["DNS_cache.hit"] + d["DNS_cache.missed"] + d["DNS_cache.expired"]
	if cacheOn && passedLocation && nc != 1 {
		return fmt.Sprintf("cache enabled: hit/missed/expired moved by %d in total for one answered query (deltas %v)", nc, d)
	}
	if !cacheOn && nc != 0 {
		return "cache disabled but cache counters moved"
	}
	// logger
	var plain, failed int
	var logged *dns.Msg
	for _, e := range logs {
		if e.Failed {
			failed++
		} else {
			plain++
			logged = e.Msg
		}
	}
	if composed {
		if plain != 1 || failed != 0 {
			return fmt.Sprintf("a composed response (rcode %d) was written but Log was called %d times and LogFailed %d times", m.Rcode, plain, failed)
		}
		if a, b := harness.CanonMsg(logged).Full(true), harness.CanonMsg(m).Full(true); a != b || logged.Truncated != m.Truncated || logged.Id != m.Id {
			return fmt.Sprintf("the message handed to the logger differs from the message written:\n--- logged\n%s\n--- written\n%s", a, b)
		}
	} else if m == nil {
		if plain != 0 {
			return fmt.Sprintf("nothing was written but Log was called %d times", plain)
		}
	}
	if res.Writes > 1 {
		return fmt.Sprintf("%d messages written for one query", res.Writes)
	}
	return ""
}

type c19Case struct {
	WorldSeed int64  `json:"world_seed"`
	Backend   string `json:"backend"`
	Cache     bool   `json:"cache"`
	Query     string `json:"query"`
	IP        string `json:"ip"`
}

// c19Expiry: weighted answers cached for one second, asked before and after they expire (miss, hit, expired, hit):
// every one of these queries moves exactly one of the hit/missed/expired counters.
func c19Expiry(r *report.Run) {
	w, names := gen.GenWeighted(rand.New(rand.NewSource(r.Seed*97 + 3)))
	servers, err := openAll(w.Text(), harness.ServerOpts{Cache: true, WRSTimeout: 1})
	if err != nil {
		r.Violation("", "weighted file rejected: "+err.Error(), nil)
		return
	}
	defer servers.close()
	ask := func(phase string) {
		for _, sv := range servers.srv {
			before := sv.Stats.Snapshot()
			for i, n := range names {
				if i >= 6 || n.Wild {
					continue
				}
				q := harness.MakeQuery(gen.Presentation(n.Name), dns.TypeA, uint16(i))
				if msg := c19CheckQuery(sv, q, "203.0.113.9", false, true, 1); msg != "" {
					r.Violation("", fmt.Sprintf("%s, entries cached for 1 s, %s: %s; query %s A", sv.B.Name, phase, msg, n.Name), map[string]string{"phase": phase, "name": n.Name})
				}
				r.Count("a_expiry_queries", 1)
			}
			d := c19Delta(before, sv.Stats.Snapshot())
			for _, k := range []string{"DNS_cache.hit", "DNS_cache.missed", "DNS_cache.expired"} {
				r.Count("a_expiry_"+phase+"_"+k, d[k])
			}
		}
	}
	ask("first")
	ask("again")
	time.Sleep(2100 * time.Millisecond)
	ask("after-expiry")
	ask("again-after-expiry")
	r.Eval(1)
}

func c19Handler(r *report.Run) {
	c19Expiry(r)
	nworlds := r.Pick(12, 300)
	for i := 0; i < nworlds; i++ {
		seed := r.Seed*41000041 + int64(i)
		layout := -1
		if i < 10 {
			layout = i
		}
		w := gen.GenWorld(rand.New(rand.NewSource(seed)), gen.WorldOpts{Layout: layout})
		rng := rand.New(rand.NewSource(seed ^ 0x1919))
		cacheOn := i%2 == 0
		servers, err := openAll(w.Text(), harness.ServerOpts{Cache: cacheOn})
		r.Eval(1)
		if err != nil {
			r.Violation("", "file rejected: "+err.Error(), c19Case{WorldSeed: seed})
			continue
		}
		qs := w.Queries(rng, 150)
		clients := w.Clients(rng)
		// answers that truncation empties (one TXT record beyond 512 bytes, plain UDP query without EDNS): the counters
		// must describe the message that was written (NOERROR, no answer), not the one composed before scrubbing. Asked
		// deterministically of every backend, the random loop below only meets these names by chance
		for _, o := range w.Owners {
			if !strings.HasPrefix(o, "huge.") && !strings.HasPrefix(gen.Presentation(o), "huge.") {
				continue
			}
			for k, sv := range servers.srv {
				q := harness.MakeQuery(gen.Presentation(o), dns.TypeTXT, uint16(60000+k))
				msg := c19CheckQuery(sv, q, "203.0.113.9", false, cacheOn, 8)
				r.Count("a_queries", 1)
				r.Count("a_queries_for_answers_too_big_for_plain_udp", 1)
				if msg != "" {
					r.Violation("", fmt.Sprintf("%s (cache=%v): %s; query: %s", sv.B.Name, cacheOn, msg, strings.ReplaceAll(q.String(), "\n", " | ")), c19Case{WorldSeed: seed, Backend: sv.B.Name, Cache: cacheOn, Query: q.String(), IP: "203.0.113.9"})
				}
			}
		}
		for n := 0; n < r.Pick(500, 900); n++ {
			var q *dns.Msg
			ip := "203.0.113.9"
			if n%2 == 0 && len(qs) > 0 {
				gq := qs[rng.Intn(len(qs))]
				c := clients[rng.Intn(len(clients))]
				q = buildQuery(gq, c, rng, uint16(n))
				ip = c.IP
			} else {
				q, _ = gen.HostileMsg(rng, w.Owners)
				if q == nil {
					continue
				}
			}
			sv := servers.srv[rng.Intn(len(servers.srv))]
			msg := c19CheckQuery(sv, q, ip, rng.Intn(5) == 0, cacheOn, 1+rng.Intn(8))
			r.Count("a_queries", 1)
			r.Nontrivial(fmt.Sprintf("%d/%d/%s", seed, n, sv.B.Name))
			if msg != "" {
				r.Violation("", fmt.Sprintf("%s (cache=%v): %s; query: %s", sv.B.Name, cacheOn, msg, strings.ReplaceAll(q.String(), "\n", " | ")), c19Case{WorldSeed: seed, Backend: sv.B.Name, Cache: cacheOn, Query: q.String(), IP: ip})
			}
		}
		// response classes seen through the counters
		for _, sv := range servers.srv {
			snap := sv.Stats.Snapshot()
			for _, k := range []string{"DNS_queries_nxdomain", "DNS_queries_refused", "DNS_queries_nodata", "DNS_queries_badvers", "DNS_queries_notauthoritative", "DNS_cache.hit", "DNS_cache.missed"} {
				r.Count("a_seen_"+k, snap[k])
			}
		}
		servers.close()
		if r.Violations() >= 10 {
			return
		}
	}
}

// ---- (c) sliding window ----

type c19Add struct {
	value      int64
	start, end time.Duration // relative to schedule start, measured around Add
}

type c19Schedule struct {
	Name   string          `json:"name"`
	AddsAt []time.Duration `json:"adds_at_ms"`
	ObsAt  []time.Duration `json:"observations_at_ms"`
}

const c19Lifetime = 3 * time.Second

// observations that fell between a sample's expiry and its sweep and were checked against bounds only
var c19Bounded atomic.Int64

// c19RunSchedule executes one timed schedule against a real sliding window (verif constructor)
// and returns violations, the number of conclusive and skipped observations.
func c19RunSchedule(s c19Schedule, base int64) (viol []string, conclusive, skipped int) {
	bounded := 0
	defer func() { c19Bounded.Add(int64(bounded)) }()
	st := metrics.NewStats()
	// three sampled metrics live in the one Stats (the server registers several): each gets the same timing and its
	// own values, and each is checked on its own - what is exported for one must not depend on the others
	keys := []string{"verif.window", "verif.other", "a.third"}
	for _, key := range keys {
		if err := st.VerifRegisterWindow(key, c19Lifetime); err != nil {
			return []string{err.Error()}, 0, 0
		}
	}
	t0 := time.Now()
	type ev struct {
		at  time.Duration
		add bool
		i   int
	}
	var evs []ev
	for i, a := range s.AddsAt {
		evs = append(evs, ev{a, true, i})
	}
	for i, o := range s.ObsAt {
		evs = append(evs, ev{o, false, i})
	}
	sort.SliceStable(evs, func(i, j int) bool { return evs[i].at < evs[j].at })
	var adds []c19Add
	for _, e := range evs {
		if d := e.at - time.Since(t0); d > 0 {
			time.Sleep(d)
		}
		if e.add {
			v := base + int64(len(adds)) + 1 // unique, never zero
			a := c19Add{value: v, start: time.Since(t0)}
			for k, key := range keys {
				st.AddSample(key, v+int64(k)*1000000)
			}
			a.end = time.Since(t0)
			adds = append(adds, a)
			continue
		}
		os := time.Since(t0)
		got := st.Get()
		oe := time.Since(t0)
		// classify every sample added so far
		var must, maybe []int64
		either := false
		for _, a := range adds {
			switch {
			case oe < a.start+c19Lifetime:
				must = append(must, a.value) // cannot have expired yet
			case os > a.end+c19Lifetime+time.Second+time.Second:
				// expired, and a cleaner tick (1 s) plus 1 s slack has passed: must be gone
			default:
				either = true
				maybe = append(maybe, a.value)
			}
		}
		if either {
			// the reported set S is not determined (must <= S <= must+maybe), but it is bounded: every exported
			// figure is computed from values that were added and may still be there, so
			// min(must+maybe) <= min <= min(must), max(must) <= max <= max(must+maybe), min <= avg <= max,
			// and with no must-sample either all three are 0 or all lie within the maybe-samples' range
			skipped++
			all := append(append([]int64{}, must...), maybe...)
			sort.Slice(all, func(i, j int) bool { return all[i] < all[j] })
			sort.Slice(must, func(i, j int) bool { return must[i] < must[j] })
			for k, key := range keys {
				off := int64(k) * 1000000
				mn, mx, avg := got[key+".min"], got[key+".max"], got[key+".avg"]
				lo, hi := all[0]+off, all[len(all)-1]+off
				bad := false
				if len(must) == 0 && mn == 0 && mx == 0 && avg == 0 {
					continue
				}
				if mn < lo || mx > hi || mn > mx || avg < mn || avg > mx {
					bad = true
				}
				if len(must) > 0 && (mn > must[0]+off || mx < must[len(must)-1]+off) {
					bad = true
				}
				if bad {
					viol = append(viol, fmt.Sprintf("%s at %v: metric %s has live samples %v+%d and expired-but-maybe-not-yet-swept samples %v+%d, but exported min/max/avg = %d/%d/%d lie outside what any set between the two can produce (a value that was never added, or a live sample missing)", s.Name, os.Round(time.Millisecond), key, must, off, maybe, off, mn, mx, avg))
				}
			}
			bounded++
			continue
		}
		conclusive++
		sort.Slice(must, func(i, j int) bool { return must[i] < must[j] })
		for k, key := range keys {
			off := int64(k) * 1000000
			mn, mx, avg := got[key+".min"], got[key+".max"], got[key+".avg"]
			if len(must) == 0 {
				if mn != 0 || mx != 0 || avg != 0 {
					viol = append(viol, fmt.Sprintf("%s at %v: all samples of %s expired but min/max/avg = %d/%d/%d", s.Name, os.Round(time.Millisecond), key, mn, mx, avg))
				}
				continue
			}
			var sum int64
			for _, v := range must {
				sum += v + off
			}
			wantAvg := sum / int64(len(must))
			if mn != must[0]+off || mx != must[len(must)-1]+off || avg != wantAvg {
				viol = append(viol, fmt.Sprintf("%s at %v: metric %s (one of %d sampled metrics in the Stats) has live samples %v+%d (min %d max %d avg %d) but exported min/max/avg = %d/%d/%d", s.Name, os.Round(time.Millisecond), key, len(keys), must, off, must[0]+off, must[len(must)-1]+off, wantAvg, mn, mx, avg))
			}
		}
	}
	return viol, conclusive, skipped
}

func ms(v ...int) []time.Duration {
	out := make([]time.Duration, len(v))
	for i, x := range v {
		out[i] = time.Duration(x) * time.Millisecond
	}
	return out
}

func c19Schedules(thorough bool, rng *rand.Rand) []c19Schedule {
	s := []c19Schedule{
		// one old sample expires while two younger ones are live at the cleaner tick that removes it
		{Name: "old+2live", AddsAt: ms(0, 2500, 2600), ObsAt: ms(100, 2700, 5200, 5300, 5400, 8000)},
		// two waves: the first wave is long gone (> lifetime + 2 s) while the second is still young
		{Name: "two-waves", AddsAt: ms(0, 100, 200, 5300, 5400, 5500), ObsAt: ms(300, 2900, 5600, 7000, 8200, 11000)},
		// burst, silence until all gone, then a new sample
		{Name: "burst-gap", AddsAt: ms(0, 10, 20, 30, 5600), ObsAt: ms(50, 2900, 5500, 5700, 8000, 11000)},
		// exports that land between a sample's expiry (3 s) and the cleaner tick that sweeps it (at most 1 s later), while a
		// younger sample is live: only bounds can be checked there (see the 'either' branch)
		{Name: "expiry-gap", AddsAt: ms(0, 40, 2500), ObsAt: ms(2900, 3100, 3250, 3400, 3550, 3700, 3850, 4000, 4150, 6800)},
	}
	if thorough {
		for i := 0; i < 37; i++ {
			var a, o []int
			n := 2 + rng.Intn(8)
			for j := 0; j < n; j++ {
				a = append(a, rng.Intn(6000))
			}
			sort.Ints(a)
			for j := 0; j < 6; j++ {
				o = append(o, 50+rng.Intn(11000))
			}
			sort.Ints(o)
			s = append(s, c19Schedule{Name: fmt.Sprintf("random-%d", i), AddsAt: ms(a...), ObsAt: ms(o...)})
		}
	}
	return s
}

func c19Window(r *report.Run) {
	rng := rand.New(rand.NewSource(r.Seed*43 + 19))
	scheds := c19Schedules(r.Thorough(), rng)
	var mu sync.Mutex
	var wg sync.WaitGroup
	for i, s := range scheds {
		wg.Add(1)
		go func(i int, s c19Schedule) {
			defer wg.Done()
			viol, conc, skip := c19RunSchedule(s, int64(1000*(i+1)))
			mu.Lock()
			defer mu.Unlock()
			r.Eval(1)
			r.Count("c_window_observations_conclusive", int64(conc))
			r.Count("c_window_observations_skipped_as_either", int64(skip))
			r.Count("c_window_samples_added", int64(len(s.AddsAt)))
			if conc > 0 {
				r.Nontrivial("window-" + s.Name)
			}
			if i < 1 {
				r.Sample(map[string]interface{}{"window_schedule": s.Name, "adds_at_ms": s.AddsAt, "observations_at_ms": s.ObsAt, "lifetime_ms": c19Lifetime})
			}
			for _, v := range viol {
				r.Violation("", "sliding window: "+v, s)
			}
		}(i, s)
	}
	wg.Wait()
	r.Count("c_window_observations_in_expiry_gap_checked_against_bounds", c19Bounded.Load())
}

// ---- (b) counters under concurrency (race build, child) ----

func c19CountersWorker(args []string) int {
	st := metrics.NewStats()
	var wg sync.WaitGroup
	const G, N = 16, 100000
	stop := make(chan struct{})
	go func() {
		for {
			select {
			case <-stop:
				return
			default:
				st.Get()
				time.Sleep(100 * time.Microsecond)
			}
		}
	}()
	for g := 0; g < G; g++ {
		wg.Add(1)
		go func(g int) {
			defer wg.Done()
			for i := 0; i < N; i++ {
				st.IncrementCounter("shared")
				st.IncrementCounterBy("by3", 3)
				st.IncrementCounter(fmt.Sprintf("own%d", g))
				if i%1000 == 0 {
					st.AddSample("win", int64(i+1))
				}
			}
		}(g)
	}
	wg.Wait()
	close(stop)
	got := st.Get()
	// first samples of a fresh key added by several goroutines at the same moment: every one of them must
	// be exported (the window is created on first use)
	firstViol := ""
	rounds := 1500
	for round := 0; round < rounds && firstViol == ""; round++ {
		fs := metrics.NewStats()
		key := fmt.Sprintf("fresh%d", round)
		var bw sync.WaitGroup
		start := make(chan struct{})
		const K = 8
		var sum int64
		for g := 0; g < K; g++ {
			v := int64(1000*(round+1) + g + 1)
			sum += v
			bw.Add(1)
			go func(v int64) {
				defer bw.Done()
				<-start
				fs.AddSample(key, v)
			}(v)
		}
		close(start)
		bw.Wait()
		e := fs.Get()
		wantMin, wantMax, wantAvg := int64(1000*(round+1)+1), int64(1000*(round+1)+K), sum/K
		if e[key+".min"] != wantMin || e[key+".max"] != wantMax || e[key+".avg"] != wantAvg {
			firstViol = fmt.Sprintf("round %d: %d goroutines added the first samples %d..%d of a fresh key at once, exported min/max/avg = %d/%d/%d, want %d/%d/%d", round, K, wantMin, wantMax, e[key+".min"], e[key+".max"], e[key+".avg"], wantMin, wantMax, wantAvg)
		}
	}
	ok := got["shared"] == G*N && got["by3"] == 3*G*N
	for g := 0; g < G; g++ {
		if got[fmt.Sprintf("own%d", g)] != N {
			ok = false
		}
	}
	summary(map[string]interface{}{"ok": ok, "shared": got["shared"], "by3": got["by3"], "increments": 3 * G * N, "first_sample_rounds": rounds, "first_sample_violation": firstViol})
	if !ok || firstViol != "" {
		return 1
	}
	return 0
}

func runC19(r *report.Run) {
	r.SetRule("(a) generated and hostile queries on generated databases of every layout (CDB, RocksDB v1/v2; cache on and off) with recording implementations of the public Stats and Logger interfaces: per query the counter deltas must be DNS_queries +1, its type counter +1, exactly one location-class counter and one of cache hit/missed/expired once the location stage is passed, and nxdomain/refused/nodata/badvers/notauthoritative exactly as the message actually written dictates; Log called exactly once with a message equal to the one written for every composed response, never without a write. plus weighted answers cached for one second and asked before and after they expire (miss, hit, expired, hit - exactly one of the three cache counters per query); (b) 16 goroutines x 1e5 increments on metrics.Stats with a concurrent exporter, sums exact, under the race detector; plus 1 500 rounds of 8 goroutines adding the first samples of a fresh key at the same moment, all of which must be exported. (c) real sliding windows (verif constructor, lifetime 3 s, real clock) fed scripted Add schedules with live and expired samples present at the same cleaner tick, unique non-zero values; each observation classifies every sample from measured monotonic timestamps as must-be-reported / must-be-gone / either, observations with an 'either' sample are only checked against bounds (min(must+either) <= min <= min(must), max(must) <= max <= max(must+either), min <= avg <= max; schedule expiry-gap puts nine exports between an expiry and its sweep); otherwise exported min/max/avg must be computed from exactly the must-set. non-trivial = checked query / conclusive observation; distinct by case")
	r.Assume("(c) uses the real clock because the code has no clock seam; tick 1 s plus 1 s slack before a sample must be gone; skipped observations are counted, never decided")
	var wg sync.WaitGroup
	wg.Add(1)
	go func() { defer wg.Done(); c19Window(r) }()
	c19Handler(r)
	res, err := runChild(true, "c19counters", nil, 10*time.Minute)
	if err != nil || res.Summary == nil {
		r.Inconclusive(fmt.Sprintf("counter child failed: %v", err))
	} else {
		total, uniq := dedupRaces(res.RaceLogs)
		r.Count("b_race_reports", int64(total))
		if n, ok := res.Summary["increments"].(float64); ok {
			r.Count("b_concurrent_increments", int64(n))
		}
		r.Eval(1)
		r.Nontrivial("counters")
		if ok, _ := res.Summary["ok"].(bool); !ok {
			r.Violation("", fmt.Sprintf("concurrent counter sums are wrong: %v", res.Summary), res.Summary)
		}
		if n, ok := res.Summary["first_sample_rounds"].(float64); ok {
			r.Count("b_concurrent_first_sample_rounds", int64(n))
		}
		if v, _ := res.Summary["first_sample_violation"].(string); v != "" {
			r.Violation("", "samples lost: "+v, res.Summary)
		}
		for _, u := range uniq {
			r.Violation("", "data race in metrics.Stats:\n"+u.Text, map[string]interface{}{"report": u.Text})
		}
	}
	wg.Wait()
}

func replayC19(r *report.Run, raw json.RawMessage) {
	var s c19Schedule
	if json.Unmarshal(raw, &s) == nil && len(s.AddsAt) > 0 {
		viol, conc, skip := c19RunSchedule(s, 1000)
		fmt.Println("conclusive", conc, "skipped", skip)
		for _, v := range viol {
			fmt.Println(v)
			r.Violation("", v, s)
		}
		return
	}
	fmt.Println("recorded handler/counter case: re-run the check with the same VERIF_SEED; the query text is in the replay file")
	r.Violation("", "recorded case", nil)
}
