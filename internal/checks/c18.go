package checks

import (
	"bytes"
	"encoding/base64"
	"encoding/binary"
	"encoding/json"
	"fmt"
	"math/rand"
	"net"
	"sort"
	"strings"

	"github.com/facebookincubator/dns/dnsrocks/dnsdata"
	"github.com/facebookincubator/dns/dnsrocks/dnsdata/svcb"
	"github.com/miekg/dns"

	"verif/internal/report"
)

func init() {
	register("C18", "exploration", runC18, replayC18)
}

// declared parameter (structured, before rendering)
type c18Param struct {
	Key  int      `json:"key"`  // 0..6
	Vals []string `json:"vals"` // textual values as declared
	ECH  []byte   `json:"ech,omitempty"`
}

var c18Names = []string{"mandatory", "alpn", "no-default-alpn", "port", "ipv4hint", "echconfig", "ipv6hint"}

// c18Expected is the harness's own RFC 9460 encoder of a declared list.
func c18Expected(ps []c18Param) []byte {
	s := append([]c18Param{}, ps...)
	sort.SliceStable(s, func(i, j int) bool { return s[i].Key < s[j].Key })
	var out bytes.Buffer
	for _, p := range s {
		var v bytes.Buffer
		switch p.Key {
		case 0:
			var codes []int
			for _, n := range p.Vals {
				for i, nm := range c18Names {
					if nm == n {
						codes = append(codes, i)
					}
				}
			}
			sort.Ints(codes)
			for _, c := range codes {
				binary.Write(&v, binary.BigEndian, uint16(c))
			}
		case 1:
			for _, a := range p.Vals {
				v.WriteByte(byte(len(a)))
				v.WriteString(a)
			}
		case 2:
		case 3:
			var port int
			fmt.Sscanf(p.Vals[0], "%d", &port)
			binary.Write(&v, binary.BigEndian, uint16(port))
		case 4:
			for _, a := range p.Vals {
				v.Write(net.ParseIP(a).To4())
			}
		case 5:
			v.Write(p.ECH)
		case 6:
			for _, a := range p.Vals {
				v.Write(net.ParseIP(a).To16())
			}
		}
		binary.Write(&out, binary.BigEndian, uint16(p.Key))
		binary.Write(&out, binary.BigEndian, uint16(v.Len()))
		out.Write(v.Bytes())
	}
	return out.Bytes()
}

func c18Render(ps []c18Param, rng *rand.Rand) string {
	var parts []string
	for _, p := range ps {
		val := strings.Join(p.Vals, "|")
		if p.Key == 5 {
			val = base64.StdEncoding.EncodeToString(p.ECH)
		}
		if p.Key != 2 && rng.Intn(3) == 0 {
			val = `"` + val + `"`
		}
		parts = append(parts, c18Names[p.Key]+"="+val)
	}
	s := strings.Join(parts, ";")
	if len(parts) > 0 && rng.Intn(8) == 0 {
		s += ";" // trailing delimiter as in hand-written files
	}
	return s
}

// c18Walk is an independent RFC 9460 wire walker: strictly increasing keys,
// consistent lengths, per-key value shape.
func c18Walk(w []byte) (keys []int, err error) {
	last := -1
	for len(w) > 0 {
		if len(w) < 4 {
			return keys, fmt.Errorf("truncated parameter header")
		}
		k := int(binary.BigEndian.Uint16(w))
		l := int(binary.BigEndian.Uint16(w[2:]))
		if 4+l > len(w) {
			return keys, fmt.Errorf("parameter %d length %d overruns", k, l)
		}
		v := w[4 : 4+l]
		if k <= last {
			return keys, fmt.Errorf("keys not strictly increasing (%d after %d)", k, last)
		}
		last = k
		switch k {
		case 0:
			if l == 0 || l%2 != 0 {
				return keys, fmt.Errorf("mandatory: bad length %d", l)
			}
			prev := -1
			for i := 0; i < l; i += 2 {
				c := int(binary.BigEndian.Uint16(v[i:]))
				if c <= prev || c == 0 {
					return keys, fmt.Errorf("mandatory: keys not strictly increasing or key0")
				}
				prev = c
			}
		case 1:
			if l == 0 {
				return keys, fmt.Errorf("alpn: empty value")
			}
			for i := 0; i < l; {
				n := int(v[i])
				if n == 0 {
					return keys, fmt.Errorf("alpn: zero-length alpn-id")
				}
				if i+1+n > l {
					return keys, fmt.Errorf("alpn: id overruns value")
				}
				i += 1 + n
			}
		case 2:
			if l != 0 {
				return keys, fmt.Errorf("no-default-alpn: non-empty value")
			}
		case 3:
			if l != 2 {
				return keys, fmt.Errorf("port: length %d", l)
			}
		case 4:
			if l == 0 || l%4 != 0 {
				return keys, fmt.Errorf("ipv4hint: length %d", l)
			}
		case 6:
			if l == 0 || l%16 != 0 {
				return keys, fmt.Errorf("ipv6hint: length %d", l)
			}
		}
		keys = append(keys, k)
		w = w[4+l:]
	}
	return keys, nil
}

// c18Miekg decodes priority|target|params with miekg/dns and renders key=value strings.
func c18Miekg(rdata []byte) (*dns.SVCB, error) {
	hdr := dns.RR_Header{Name: "x.example.", Rrtype: dns.TypeSVCB, Class: dns.ClassINET, Ttl: 1, Rdlength: uint16(len(rdata))}
	rr, _, err := dns.UnpackRRWithHeader(hdr, rdata, 0)
	if err != nil {
		return nil, err
	}
	s, ok := rr.(*dns.SVCB)
	if !ok {
		return nil, fmt.Errorf("not an SVCB: %T", rr)
	}
	return s, nil
}

func c18MiekgMatches(s *dns.SVCB, ps []c18Param) string {
	want := append([]c18Param{}, ps...)
	sort.SliceStable(want, func(i, j int) bool { return want[i].Key < want[j].Key })
	if len(s.Value) != len(want) {
		return fmt.Sprintf("independent decoder sees %d parameters, %d declared", len(s.Value), len(want))
	}
	for i, kv := range s.Value {
		p := want[i]
		if int(kv.Key()) != p.Key {
			return fmt.Sprintf("parameter #%d has key %d, declared %d", i, kv.Key(), p.Key)
		}
		switch v := kv.(type) {
		case *dns.SVCBMandatory:
			var got []string
			for _, c := range v.Code {
				if int(c) < len(c18Names) {
					got = append(got, c18Names[c])
				}
			}
			w := append([]string{}, p.Vals...)
			sort.Slice(w, func(a, b int) bool { return c18Index(w[a]) < c18Index(w[b]) })
			if strings.Join(got, "|") != strings.Join(w, "|") {
				return fmt.Sprintf("mandatory decoded %v declared %v", got, w)
			}
		case *dns.SVCBAlpn:
			if strings.Join(v.Alpn, "|") != strings.Join(p.Vals, "|") || len(v.Alpn) != len(p.Vals) {
				return fmt.Sprintf("alpn decoded %q declared %q", v.Alpn, p.Vals)
			}
		case *dns.SVCBNoDefaultAlpn:
		case *dns.SVCBPort:
			if fmt.Sprint(v.Port) != strings.TrimLeft(p.Vals[0], "0") && !(v.Port == 0 && strings.Trim(p.Vals[0], "0") == "") {
				return fmt.Sprintf("port decoded %d declared %s", v.Port, p.Vals[0])
			}
		case *dns.SVCBIPv4Hint:
			if len(v.Hint) != len(p.Vals) {
				return "ipv4hint count differs"
			}
			for j, ip := range v.Hint {
				if !ip.Equal(net.ParseIP(p.Vals[j])) {
					return fmt.Sprintf("ipv4hint #%d decoded %v declared %s", j, ip, p.Vals[j])
				}
			}
		case *dns.SVCBECHConfig:
			if !bytes.Equal(v.ECH, p.ECH) {
				return "ech bytes differ"
			}
		case *dns.SVCBIPv6Hint:
			if len(v.Hint) != len(p.Vals) {
				return "ipv6hint count differs"
			}
			for j, ip := range v.Hint {
				if !ip.Equal(net.ParseIP(p.Vals[j])) {
					return fmt.Sprintf("ipv6hint #%d decoded %v declared %s", j, ip, p.Vals[j])
				}
			}
		default:
			return fmt.Sprintf("unexpected decoded type %T", kv)
		}
	}
	return ""
}

func c18HasMapped(ps []c18Param) bool {
	for _, p := range ps {
		if p.Key == 6 {
			for _, v := range p.Vals {
				if ip := net.ParseIP(v); ip != nil && ip.To4() != nil {
					return true
				}
			}
		}
	}
	return false
}

func c18Index(n string) int {
	for i, nm := range c18Names {
		if nm == n {
			return i
		}
	}
	return -1
}

var c18Fuzz func(r *report.Run)

type c18Case struct {
	Text     string     `json:"text"`
	Declared []c18Param `json:"declared"`
	// Expect: "accept" (well-formed), "reject" (must be rejected), "lenient" (rejected, or accepted losing nothing)
	Expect string `json:"expect"`
	Why    string `json:"why,omitempty"`
}

// c18Check runs one case through FromText/ToWire/ToText and through a B line of the codec.
func c18Check(c c18Case) (msg string) {
	defer func() {
		if e := recover(); e != nil {
			msg = fmt.Sprintf("list %q makes the parameter code panic: %v", c.Text, e)
		}
	}()
	var pl svcb.ParamList
	err := pl.FromText([]byte(c.Text))
	if c.Expect == "reject" {
		if err == nil {
			var w bytes.Buffer
			pl.ToWire(&w)
			return fmt.Sprintf("malformed list %q (%s) accepted; wire %x", c.Text, c.Why, w.Bytes())
		}
		return ""
	}
	if err != nil {
		if c.Expect == "lenient" {
			return ""
		}
		return fmt.Sprintf("well-formed list %q rejected: %v", c.Text, err)
	}
	var w bytes.Buffer
	if err := pl.ToWire(&w); err != nil {
		return fmt.Sprintf("ToWire(%q): %v", c.Text, err)
	}
	wire := w.Bytes()
	if _, err := c18Walk(wire); err != nil {
		return fmt.Sprintf("list %q emitted non-conformant wire data %x: %v", c.Text, wire, err)
	}
	if exp := c18Expected(c.Declared); !bytes.Equal(exp, wire) {
		return fmt.Sprintf("list %q: wire %x, RFC 9460 encoding of the declared parameters is %x", c.Text, wire, exp)
	}
	// independent decoder on priority|target|params
	rdata := append([]byte{0, 1, 3, 's', 'v', 'c', 7, 'e', 'x', 'a', 'm', 'p', 'l', 'e', 0}, wire...)
	// miekg/dns refuses IPv4-mapped addresses in ipv6hint (its own policy, not RFC 9460);
	// such lists are decided by the harness's encoder/walker above only.
	mapped := c18HasMapped(c.Declared)
	if !mapped {
		s, err := c18Miekg(rdata)
		if err != nil {
			return fmt.Sprintf("list %q: miekg/dns cannot decode %x: %v", c.Text, wire, err)
		}
		if m := c18MiekgMatches(s, c.Declared); m != "" {
			return fmt.Sprintf("list %q: %s", c.Text, m)
		}
	}
	// through the record codec (B and H lines): rrhead(15) priority target params
	for _, pfx := range []string{"B", "H"} {
		line := fmt.Sprintf("%sa.example.com,svc.example.com,300,,7,%s", pfx, c.Text)
		cd := new(dnsdata.Codec)
		recs, err := cd.ConvertLn([]byte(line))
		if err != nil {
			return fmt.Sprintf("line %q rejected: %v", line, err)
		}
		if len(recs) != 1 || len(recs[0].Value) < 15 {
			return fmt.Sprintf("line %q: unexpected records", line)
		}
		rd := recs[0].Value[15:]
		wantRd := append([]byte{0, 7, 3, 's', 'v', 'c', 7, 'e', 'x', 'a', 'm', 'p', 'l', 'e', 3, 'c', 'o', 'm', 0}, wire...)
		if !bytes.Equal(rd, wantRd) {
			return fmt.Sprintf("line %q: rdata %x want %x", line, rd, wantRd)
		}
		if mapped {
			continue
		}
		s2, err := c18Miekg(rd)
		if err != nil {
			return fmt.Sprintf("line %q: miekg/dns cannot decode rdata: %v", line, err)
		}
		if s2.Priority != 7 || s2.Target != "svc.example.com." {
			return fmt.Sprintf("line %q: decoded priority %d target %s", line, s2.Priority, s2.Target)
		}
	}
	// text round trip
	var t bytes.Buffer
	pl.ToText(&t)
	var pl2 svcb.ParamList
	if err := pl2.FromText(t.Bytes()); err != nil {
		return fmt.Sprintf("[text-roundtrip] list %q prints as %q which is rejected: %v", c.Text, t.String(), err)
	}
	var w2 bytes.Buffer
	pl2.ToWire(&w2)
	if !bytes.Equal(w2.Bytes(), wire) {
		return fmt.Sprintf("[text-roundtrip] list %q prints as %q which compiles to %x instead of %x", c.Text, t.String(), w2.Bytes(), wire)
	}
	return ""
}

func c18Value(key int, present []int, rng *rand.Rand) c18Param {
	p := c18Param{Key: key}
	v4 := []string{"1.2.3.4", "0.0.0.0", "255.255.255.255", "10.0.0.1", "192.0.2.7"}
	v6 := []string{"2001:db8::1", "::", "::1", "ffff:ffff:ffff:ffff:ffff:ffff:ffff:ffff", "::ffff:1.2.3.4", "fe80::1:2", "2a03:2880:f12f:83:face:b00c:0:25de", "64:ff9b::c000:207"}
	switch key {
	case 0:
		// mandatory names a non-empty subset of the other present keys
		var others []int
		for _, k := range present {
			if k != 0 {
				others = append(others, k)
			}
		}
		rng.Shuffle(len(others), func(i, j int) { others[i], others[j] = others[j], others[i] })
		n := 1 + rng.Intn(len(others))
		for _, k := range others[:n] {
			p.Vals = append(p.Vals, c18Names[k])
		}
	case 1:
		ids := []string{"h2", "h3", "http/1.1", "x", "h3-29", strings.Repeat("a", 255), "a b", "é"}
		n := 1 + rng.Intn(3)
		for i := 0; i < n; i++ {
			p.Vals = append(p.Vals, ids[rng.Intn(len(ids))])
		}
	case 2:
	case 3:
		p.Vals = []string{[]string{"0", "1", "443", "65535", "8080", "080"}[rng.Intn(6)]}
	case 4:
		n := 1 + rng.Intn(3)
		for i := 0; i < n; i++ {
			p.Vals = append(p.Vals, v4[rng.Intn(len(v4))])
		}
	case 5:
		l := []int{1, 2, 3, 16, 57}[rng.Intn(5)]
		p.ECH = make([]byte, l)
		rng.Read(p.ECH)
	case 6:
		n := 1 + rng.Intn(3)
		for i := 0; i < n; i++ {
			p.Vals = append(p.Vals, v6[rng.Intn(len(v6))])
		}
	}
	return p
}

// c18Permutations calls f with every ordering of every subset of 0..6.
func c18Permutations(f func(order []int)) {
	var rec func(cur []int, used int)
	rec = func(cur []int, used int) {
		f(cur)
		for k := 0; k < 7; k++ {
			if used&(1<<k) == 0 {
				rec(append(cur, k), used|1<<k)
			}
		}
	}
	rec(nil, 0)
}

func c18Malformed() []c18Case {
	mk := func(text, expect, why string, decl ...c18Param) c18Case {
		return c18Case{Text: text, Declared: decl, Expect: expect, Why: why}
	}
	alpnH2 := c18Param{Key: 1, Vals: []string{"h2"}}
	port := c18Param{Key: 3, Vals: []string{"443"}}
	return []c18Case{
		mk("alpn=h2;alpn=h3", "reject", "duplicate key"),
		mk("port=1;alpn=h2;port=2", "reject", "duplicate key"),
		mk("mandatory=port;alpn=h2", "reject", "mandatory names a missing key"),
		mk("mandatory=alpn|port;alpn=h2", "reject", "mandatory names a missing key"),
		mk("mandatory=mandatory;alpn=h2", "reject", "mandatory names itself"),
		mk("mandatory=alpn|mandatory;alpn=h2", "reject", "mandatory names itself"),
		mk("mandatory=alpn|alpn;alpn=h2", "reject", "mandatory repeats a key"),
		mk("mandatory=port|alpn|port;alpn=h2;port=1", "reject", "mandatory repeats a key"),
		mk("mandatory=bogus;alpn=h2", "reject", "mandatory names an unknown key"),
		mk("mandatory=;alpn=h2", "reject", "empty mandatory"),
		mk("port=65536", "reject", "port out of range"),
		mk("port=-1", "reject", "negative port"),
		mk("port=http", "reject", "non-numeric port"),
		mk("port=", "reject", "empty port"),
		mk("port=1|2", "reject", "two ports"),
		mk("ipv4hint=1.2.3", "reject", "bad IPv4"),
		mk("ipv4hint=2001:db8::1", "reject", "IPv6 address in ipv4hint"),
		mk("ipv4hint=1.2.3.4|", "reject", "empty list element"),
		mk("ipv6hint=1.2.3.4", "reject", "IPv4 address in ipv6hint"),
		mk("ipv6hint=2001:db8::g", "reject", "bad IPv6"),
		mk("ipv6hint=|::1", "reject", "empty list element"),
		mk("echconfig=***", "reject", "bad base64"),
		mk("alpn=", "reject", "empty value"),
		mk("alpn=h2|", "reject", "empty alpn-id (RFC 9460: alpn-id = 1*255OCTET)"),
		mk("alpn=|h2", "reject", "empty alpn-id"),
		mk("alpn="+strings.Repeat("a", 256), "reject", "alpn-id longer than 255 bytes cannot be encoded"),
		mk("alpn=h2|"+strings.Repeat("b", 300), "reject", "alpn-id longer than 255 bytes cannot be encoded"),
		mk("no-default-alpn=x", "reject", "no-default-alpn with a value"),
		mk("bogus=1", "reject", "unknown key"),
		mk("alpn", "reject", "no '='"),
		mk("alpn=h2;;port=443", "lenient", "empty element between parameters", alpnH2, port),
		mk(";alpn=h2", "lenient", "leading empty element", alpnH2),
		mk(";;alpn=h2;port=443", "lenient", "leading empty elements", alpnH2, port),
		mk("alpn=h2;port=443;", "lenient", "trailing delimiter", alpnH2, port),
		mk("alpn=h2;;", "lenient", "trailing delimiters", alpnH2),
		mk("alpn=h2;port=443;;mandatory=alpn", "lenient", "empty element before mandatory", alpnH2, port, c18Param{Key: 0, Vals: []string{"alpn"}}),
		mk(";alpn=h2;mandatory=alpn", "lenient", "leading empty element, mandatory last", alpnH2, c18Param{Key: 0, Vals: []string{"alpn"}}),
		mk(";mandatory=alpn;alpn=h2", "lenient", "leading empty element, mandatory first", alpnH2, c18Param{Key: 0, Vals: []string{"alpn"}}),
		mk(";;mandatory=port;port=443;alpn=h2", "lenient", "two leading empty elements", alpnH2, port, c18Param{Key: 0, Vals: []string{"port"}}),
		mk("port=443;;mandatory=alpn;no-default-alpn=", "reject", "mandatory names a missing key (after an empty element)"),
		mk("alpn=h2;;mandatory=port;ipv4hint=0.1.0.1", "reject", "mandatory names a missing key (after an empty element)"),
		mk(";mandatory=port;alpn=h2", "reject", "mandatory names a missing key (after a leading empty element)"),
	}
}

func runC18(r *report.Run) {
	r.SetRule("every ordering of every subset of the 7 supported keys (13 700 ordered lists; complete), each with seeded value variants (1-3 values, ports 0/1/443/65535/leading zero, IPv4/IPv6/v4-mapped hints, base64 ech of several lengths, alpn ids up to 255 bytes, optional quotes and trailing ';'), x " + "extra value rounds; plus a fixed table of malformed lists. non-trivial = list with >=2 parameters or a multi-valued parameter; distinct by rendered text")
	r.Assume("independent decoders: the harness's own RFC 9460 encoder/walker and miekg/dns v1.1.50 SVCB unpacking")
	r.Assume("lists using mandatory always contain at least one other key (otherwise the list is a malformed variant)")
	rng := rand.New(rand.NewSource(r.Seed*104729 + 18))
	rounds := r.Pick(2, 30)
	orderings := 0
	for round := 0; round < rounds; round++ {
		c18Permutations(func(order []int) {
			if round == 0 {
				orderings++
			}
			if len(order) == 1 && order[0] == 0 {
				return // mandatory alone is malformed
			}
			var ps []c18Param
			for _, k := range order {
				ps = append(ps, c18Value(k, order, rng))
			}
			c := c18Case{Text: c18Render(ps, rng), Declared: ps, Expect: "accept"}
			r.Eval(1)
			multi := false
			for _, p := range ps {
				if len(p.Vals) > 1 {
					multi = true
				}
				r.Count("param_"+c18Names[p.Key], 1)
			}
			if len(ps) >= 2 || multi {
				r.Nontrivial(c.Text)
			}
			if len(ps) == 4 && r.SampleN() < 4 && rng.Intn(50) == 0 {
				r.Sample(c.Text)
			}
			if msg := c18Check(c); msg != "" {
				key := ""
				// predicate of the open finding: only the text round trip fails and an ipv6hint is IPv4-mapped
				if strings.HasPrefix(msg, "[text-roundtrip]") && c18HasMapped(c.Declared) && strings.Contains(msg, "is not a valid IPv6 address") {
					key = "ipv6hint-v4mapped-text"
				}
				r.Violation(key, msg, c)
			}
		})
	}
	r.Count("ordered_key_lists", int64(orderings))
	r.Set("exhaustive_over_key_orderings", true)
	if r.Thorough() && c18Fuzz != nil {
		c18Fuzz(r)
	}
	for _, c := range c18Malformed() {
		r.Eval(1)
		r.Count("malformed_"+c.Expect, 1)
		r.Nontrivial(c.Text)
		if r.SampleN() < 6 {
			r.Sample(map[string]string{"malformed": c.Text, "why": c.Why, "expect": c.Expect})
		}
		if msg := c18Check(c); msg != "" {
			r.Violation("", msg, c)
		}
	}
}

func init() { c18Fuzz = func(r *report.Run) { runNativeFuzz(r, "FuzzSvcb", 2000000) } }

func replayC18(r *report.Run, raw json.RawMessage) {
	var c c18Case
	if err := json.Unmarshal(raw, &c); err != nil {
		r.Inconclusive(err.Error())
		return
	}
	if msg := c18Check(c); msg != "" {
		fmt.Println(msg)
		r.Violation("", msg, c)
	}
}
