package checks

import (
	"bytes"
	"encoding/json"
	"fmt"
	"os"
	"os/exec"
	"path/filepath"
	"regexp"
	"sort"
	"strings"
	"sync/atomic"
	"time"

	"verif/internal/harness"
)

// childResult is what a worker process reports back.
type childResult struct {
	Stdout    string
	Stderr    string
	ExitCode  int
	TimedOut  bool
	RaceLogs  []string // contents of race detector log files
	Summary   map[string]interface{}
	Journal   []string
	StartedAt time.Time
}

var childSeq int64

// runChild runs `bin worker <name> args...`. With race=true the race-detector
// binary is used, reports go to log files (halt_on_error=0) and are returned.
func runChild(race bool, name string, args []string, timeout time.Duration) (*childResult, error) {
	bin := os.Getenv("VERIF_BIN")
	if race {
		bin = os.Getenv("VERIF_RACE_BIN")
	}
	if bin == "" {
		return nil, fmt.Errorf("worker binary not configured (VERIF_BIN / VERIF_RACE_BIN)")
	}
	seq := atomic.AddInt64(&childSeq, 1)
	dir := filepath.Join(harness.Scratch(), fmt.Sprintf("child-%d-%d", os.Getpid(), seq))
	os.MkdirAll(dir, 0o755)
	journal := filepath.Join(dir, "journal.log")
	racePrefix := filepath.Join(dir, "race")
	cmd := exec.Command("timeout", append([]string{"-s", "QUIT", "-k", "10", fmt.Sprint(int(timeout.Seconds())), bin, "worker", name}, args...)...)
	cmd.Env = append(os.Environ(), "VERIF_JOURNAL="+journal, "VERIF_SCRATCH="+dir, "TMPDIR="+dir)
	if race {
		cmd.Env = append(cmd.Env, "GORACE=halt_on_error=0 log_path="+racePrefix)
	}
	var so, se bytes.Buffer
	cmd.Stdout, cmd.Stderr = &so, &se
	res := &childResult{StartedAt: time.Now()}
	err := cmd.Run()
	res.Stdout, res.Stderr = so.String(), se.String()
	if ee, ok := err.(*exec.ExitError); ok {
		res.ExitCode = ee.ExitCode()
	} else if err != nil {
		return nil, err
	}
	if res.ExitCode == 124 || res.ExitCode == 137 {
		res.TimedOut = true
	}
	if matches, _ := filepath.Glob(racePrefix + ".*"); len(matches) > 0 {
		sort.Strings(matches)
		for _, m := range matches {
			b, _ := os.ReadFile(m)
			res.RaceLogs = append(res.RaceLogs, string(b))
		}
	}
	if b, err := os.ReadFile(journal); err == nil {
		res.Journal = strings.Split(strings.TrimSpace(string(b)), "\n")
	}
	for _, line := range strings.Split(res.Stdout, "\n") {
		if strings.HasPrefix(line, "SUMMARY ") {
			json.Unmarshal([]byte(line[8:]), &res.Summary)
		}
	}
	os.RemoveAll(dir)
	return res, nil
}

// journal appends a line to the worker's journal before a risky step (crash => last line is the culprit).
func journal(format string, a ...interface{}) {
	p := os.Getenv("VERIF_JOURNAL")
	if p == "" {
		return
	}
	f, err := os.OpenFile(p, os.O_APPEND|os.O_CREATE|os.O_WRONLY, 0o644)
	if err != nil {
		return
	}
	fmt.Fprintf(f, format+"\n", a...)
	f.Close()
}

// summary prints the worker's result for the parent.
func summary(m map[string]interface{}) {
	b, _ := json.Marshal(m)
	fmt.Printf("SUMMARY %s\n", b)
}

var raceFrame = regexp.MustCompile(`(?m)^  ([^\s(]+)\(`)

// raceReport is one deduplicated race report.
type raceReport struct {
	Key   string
	Text  string
	Count int
}

// dedupRaces splits race logs into reports and deduplicates them by the
// outermost-entry-point pair, then by the line-stripped stack pair.
func dedupRaces(logs []string) (total int, uniq []raceReport) {
	byKey := map[string]*raceReport{}
	for _, l := range logs {
		parts := strings.Split(l, "WARNING: DATA RACE")
		for _, p := range parts[1:] {
			total++
			end := strings.Index(p, "==================")
			if end > 0 {
				p = p[:end]
			}
			// stacks: blocks separated by blank lines; first two are the conflicting accesses
			blocks := strings.Split(strings.TrimSpace(p), "\n\n")
			var keys []string
			for i, b := range blocks {
				if i >= 2 {
					break
				}
				fr := raceFrame.FindAllStringSubmatch(b, -1)
				var names []string
				for _, f := range fr {
					names = append(names, f[1])
				}
				keys = append(keys, strings.Join(names, "<"))
			}
			sort.Strings(keys)
			k := strings.Join(keys, " || ")
			if r, ok := byKey[k]; ok {
				r.Count++
			} else {
				byKey[k] = &raceReport{Key: k, Text: "WARNING: DATA RACE" + p, Count: 1}
			}
		}
	}
	for _, r := range byKey {
		uniq = append(uniq, *r)
	}
	sort.Slice(uniq, func(i, j int) bool { return uniq[i].Key < uniq[j].Key })
	return
}

var fuzzExecs = regexp.MustCompile(`execs: (\d+)`)

// runNativeFuzz runs one Go native fuzz target of /verif/fuzz for a fixed number of executions
// (coverage-guided, seed corpus in the test file) and reports a crasher as a violation.
func runNativeFuzz(r interface {
	Count(string, int64)
	Violation(string, string, interface{})
	Inconclusive(string)
}, target string, execs int) {
	root := os.Getenv("VERIF_ROOT")
	if root == "" {
		root, _ = os.Getwd()
	}
	args := []string{"test"}
	if mf := os.Getenv("VERIF_MODFLAG"); mf != "" {
		args = append(args, mf)
	}
	args = append(args, "-tags", "verif", "-ldflags=-checklinkname=0", "-run=^$", "-fuzz=^"+target+"$", fmt.Sprintf("-fuzztime=%dx", execs), "./fuzz/")
	cmd := exec.Command("go", args...)
	cmd.Dir = root
	var out bytes.Buffer
	cmd.Stdout, cmd.Stderr = &out, &out
	err := cmd.Run()
	text := out.String()
	n := int64(0)
	for _, m := range fuzzExecs.FindAllStringSubmatch(text, -1) {
		var v int64
		fmt.Sscan(m[1], &v)
		if v > n {
			n = v
		}
	}
	r.Count("native_fuzz_execs_"+target, n)
	if err == nil {
		return
	}
	dir := filepath.Join(root, "fuzz", "testdata", "fuzz", target)
	files, _ := filepath.Glob(filepath.Join(dir, "*"))
	if len(files) == 0 {
		r.Inconclusive("native fuzzing of " + target + " failed without a crasher: " + lastLines(text, 8))
		return
	}
	for _, f := range files {
		b, _ := os.ReadFile(f)
		r.Violation("", "native fuzzing ("+target+") found a failing input:\n"+lastLines(text, 12), map[string]interface{}{"fuzz_target": target, "corpus_entry": string(b)})
		os.Remove(f)
	}
}
