package checks

import (
	"bytes"
	"encoding/json"
	"fmt"
	"os"
	"os/exec"
	"path/filepath"
	"regexp"
	"runtime"
	"sort"
	"strings"
	"sync/atomic"
	"time"

	"verif/internal/harness"
)

// childResult is what a worker process reports back.
type childResult struct {
	Stdout    string
	Stderr    string
	ExitCode  int
	TimedOut  bool
	RaceLogs  []string // contents of race detector log files
	Summary   map[string]interface{}
	Journal   []string
	StartedAt time.Time
}

var childSeq int64

// runChild runs `bin worker <name> args...`. With race=true the race-detector
// binary is used, reports go to log files (halt_on_error=0) and are returned.
func runChild(race bool, name string, args []string, timeout time.Duration) (*childResult, error) {
	bin := os.Getenv("VERIF_BIN")
	if race {
		bin = os.Getenv("VERIF_RACE_BIN")
	}
	if bin == "" {
		return nil, fmt.Errorf("worker binary not configured (VERIF_BIN / VERIF_RACE_BIN)")
	}
	seq := atomic.AddInt64(&childSeq, 1)
	dir := filepath.Join(harness.Scratch(), fmt.Sprintf("child-%d-%d", os.Getpid(), seq))
	os.MkdirAll(dir, 0o755)
	journal := filepath.Join(dir, "journal.log")
	racePrefix := filepath.Join(dir, "race")
	cmd := exec.Command("timeout", append([]string{"-s", "QUIT", "-k", "10", fmt.Sprint(int(timeout.Seconds())), bin, "worker", name}, args...)...)
	cmd.Env = append(os.Environ(), "VERIF_JOURNAL="+journal, "VERIF_SCRATCH="+dir, "TMPDIR="+dir)
	if race {
		cmd.Env = append(cmd.Env, "GORACE=halt_on_error=0 log_path="+racePrefix)
	}
	var so, se bytes.Buffer
	cmd.Stdout, cmd.Stderr = &so, &se
	res := &childResult{StartedAt: time.Now()}
	err := cmd.Run()
	res.Stdout, res.Stderr = so.String(), se.String()
	if ee, ok := err.(*exec.ExitError); ok {
		res.ExitCode = ee.ExitCode()
	} else if err != nil {
		return nil, err
	}
	if res.ExitCode == 124 || res.ExitCode == 137 {
		res.TimedOut = true
	}
	if matches, _ := filepath.Glob(racePrefix + ".*"); len(matches) > 0 {
		sort.Strings(matches)
		for _, m := range matches {
			b, _ := os.ReadFile(m)
			res.RaceLogs = append(res.RaceLogs, string(b))
		}
	}
	if b, err := os.ReadFile(journal); err == nil {
		res.Journal = strings.Split(strings.TrimSpace(string(b)), "\n")
	}
	for _, line := range strings.Split(res.Stdout, "\n") {
		if strings.HasPrefix(line, "SUMMARY ") {
			json.Unmarshal([]byte(line[8:]), &res.Summary)
		}
	}
	os.RemoveAll(dir)
	return res, nil
}

// journal appends a line to the worker's journal before a risky step (crash => last line is the culprit).
func journal(format string, a ...interface{}) {
	p := os.Getenv("VERIF_JOURNAL")
	if p == "" {
		return
	}
	f, err := os.OpenFile(p, os.O_APPEND|os.O_CREATE|os.O_WRONLY, 0o644)
	if err != nil {
		return
	}
	fmt.Fprintf(f, format+"\n", a...)
	f.Close()
}

// summary prints the worker's result for the parent.
func summary(m map[string]interface{}) {
	b, _ := json.Marshal(m)
	fmt.Printf("SUMMARY %s\n", b)
}

var raceFrame = regexp.MustCompile(`(?m)^  ([^\s(]+)\(`)

// raceReport is one deduplicated race report.
type raceReport struct {
	Key   string
	Text  string
	Count int
}

// dedupRaces splits race logs into reports and deduplicates them by the
// outermost-entry-point pair, then by the line-stripped stack pair.
func dedupRaces(logs []string) (total int, uniq []raceReport) {
	byKey := map[string]*raceReport{}
	for _, l := range logs {
		parts := strings.Split(l, "WARNING: DATA RACE")
		for _, p := range parts[1:] {
			total++
			end := strings.Index(p, "==================")
			if end > 0 {
				p = p[:end]
			}
			// stacks: blocks separated by blank lines; first two are the conflicting accesses
			blocks := strings.Split(strings.TrimSpace(p), "\n\n")
			var keys []string
			for i, b := range blocks {
				if i >= 2 {
					break
				}
				fr := raceFrame.FindAllStringSubmatch(b, -1)
				var names []string
				for _, f := range fr {
					names = append(names, f[1])
				}
				keys = append(keys, strings.Join(names, "<"))
			}
			sort.Strings(keys)
			k := strings.Join(keys, " || ")
			if r, ok := byKey[k]; ok {
				r.Count++
			} else {
				byKey[k] = &raceReport{Key: k, Text: "WARNING: DATA RACE" + p, Count: 1}
			}
		}
	}
	for _, r := range byKey {
		uniq = append(uniq, *r)
	}
	sort.Slice(uniq, func(i, j int) bool { return uniq[i].Key < uniq[j].Key })
	return
}

var fuzzExecs = regexp.MustCompile(`execs: (\d+)`)

// runNativeFuzz runs one Go native fuzz target of /verif/fuzz for a fixed number of executions
// (coverage-guided, seed corpus in the test file) and reports a crasher as a violation.
func runNativeFuzz(r interface {
	Count(string, int64)
	Violation(string, string, interface{})
	Inconclusive(string)
}, target string, execs int) {
	root := os.Getenv("VERIF_ROOT")
	if root == "" {
		root, _ = os.Getwd()
	}
	args := []string{"test"}
	if mf := os.Getenv("VERIF_MODFLAG"); mf != "" {
		args = append(args, mf)
	}
	args = append(args, "-tags", "verif", "-ldflags=-checklinkname=0", "-run=^$", "-fuzz=^"+target+"$", fmt.Sprintf("-fuzztime=%dx", execs), "./fuzz/")
	cmd := exec.Command("go", args...)
	cmd.Dir = root
	var out bytes.Buffer
	cmd.Stdout, cmd.Stderr = &out, &out
	err := cmd.Run()
	text := out.String()
	n := int64(0)
	for _, m := range fuzzExecs.FindAllStringSubmatch(text, -1) {
		var v int64
		fmt.Sscan(m[1], &v)
		if v > n {
			n = v
		}
	}
	r.Count("native_fuzz_execs_"+target, n)
	if err == nil {
		return
	}
	dir := filepath.Join(root, "fuzz", "testdata", "fuzz", target)
	files, _ := filepath.Glob(filepath.Join(dir, "*"))
	if len(files) == 0 {
		r.Inconclusive("native fuzzing of " + target + " failed without a crasher: " + lastLines(text, 8))
		return
	}
	for _, f := range files {
		b, _ := os.ReadFile(f)
		r.Violation("", "native fuzzing ("+target+") found a failing input:\n"+lastLines(text, 12), map[string]interface{}{"fuzz_target": target, "corpus_entry": string(b)})
		os.Remove(f)
	}
}

// ---- structural lock-deadlock witness (used inside child workers) ----

var (
	gHeader   = regexp.MustCompile(`^goroutine (\d+) \[([^\],]+)(?:, [^\]]*)?\]:`)
	gAddrs    = regexp.MustCompile(`\+0x[0-9a-f]+|0x[0-9a-f]+`)
	repoFrame = regexp.MustCompile(`facebookincubator/dns/dnsrocks/(dnsserver|db|fbserver|metrics)\.`)
)

type gState struct {
	id, state, stack string
}

// repoGoroutines lists the goroutines that are inside the repository's serving code.
func repoGoroutines() []gState {
	buf := make([]byte, 16<<20)
	buf = buf[:runtime.Stack(buf, true)]
	var out []gState
	for _, g := range strings.Split(string(buf), "\n\n") {
		m := gHeader.FindStringSubmatch(g)
		own := g
		if i := strings.Index(own, "\ncreated by "); i >= 0 {
			own = own[:i] // the creator's name is not a frame of this goroutine
		}
		if m == nil || !repoFrame.MatchString(own) {
			continue
		}
		nl := strings.IndexByte(g, '\n')
		body := ""
		if nl >= 0 {
			body = gAddrs.ReplaceAllString(g[nl+1:], "")
		}
		out = append(out, gState{m[1], m[2], body})
	}
	return out
}

// lockDeadlockWitness decides structurally whether the serving code is deadlocked on its own locks:
// in three dumps taken 2 s apart every goroutine that is inside the serving code is either blocked
// acquiring a sync.Mutex/RWMutex or idle in a wait that only other serving goroutines can end
// (select / chan receive / sleep / IO wait), none is running, runnable, in a system or cgo call or
// parked by the harness, the blocked set and its stacks are identical in all dumps, and it contains a
// waiting writer together with a waiting reader or two waiters of a plain mutex. The caller has
// already seen its progress counter stand still; wall-clock alone never gives this verdict.
func lockDeadlockWitness(progress func() int64) string {
	isLock := func(s string) bool {
		return strings.HasPrefix(s, "sync.RWMutex.") || strings.HasPrefix(s, "sync.Mutex.") || s == "semacquire"
	}
	isIdle := func(s string) bool {
		return s == "select" || s == "chan receive" || s == "sleep" || s == "IO wait" || s == "sync.Cond.Wait" || s == "sync.WaitGroup.Wait" || s == "select (no cases)"
	}
	p0 := progress()
	var first map[string]string
	var firstList []gState
	for round := 0; round < 3; round++ {
		if round > 0 {
			time.Sleep(2 * time.Second)
		}
		if progress() != p0 {
			return ""
		}
		gs := repoGoroutines()
		blocked := map[string]string{}
		var list []gState
		readers, writers, plain := 0, 0, 0
		for _, g := range gs {
			if strings.Contains(g.stack, "verif/internal/sched.") {
				return "" // the harness itself is holding a goroutine
			}
			switch {
			case isLock(g.state):
				blocked[g.id] = g.state + "\n" + g.stack
				list = append(list, g)
				switch {
				case strings.Contains(g.state, "RLock"):
					readers++
				case strings.Contains(g.state, "RWMutex.Lock"):
					writers++
				default:
					plain++
				}
			case isIdle(g.state):
			default:
				return "" // somebody is running / runnable / in a system or cgo call
			}
		}
		if !(writers >= 1 && readers >= 1 || plain >= 2) {
			return ""
		}
		if round == 0 {
			first, firstList = blocked, list
			continue
		}
		if len(blocked) != len(first) {
			return ""
		}
		for id, st := range blocked {
			if first[id] != st {
				return ""
			}
		}
	}
	var sb strings.Builder
	for i, g := range firstList {
		if i >= 6 {
			fmt.Fprintf(&sb, "... and %d more blocked goroutines\n", len(firstList)-i)
			break
		}
		lines := strings.Split(g.stack, "\n")
		if len(lines) > 14 {
			lines = lines[:14]
		}
		fmt.Fprintf(&sb, "goroutine %s [%s]:\n%s\n", g.id, g.state, strings.Join(lines, "\n"))
	}
	return sb.String()
}

// watchForLockDeadlock runs in a child worker: when the progress counter has stood still for `quiet`
// it looks for a structural witness; with one, it reports through the summary line and ends the process.
func watchForLockDeadlock(progress func() int64, quiet time.Duration, where func() string) {
	go func() {
		last, since := progress(), time.Now()
		for {
			time.Sleep(time.Second)
			if p := progress(); p != last {
				last, since = p, time.Now()
				continue
			}
			if time.Since(since) < quiet {
				continue
			}
			if w := lockDeadlockWitness(progress); w != "" {
				summary(map[string]interface{}{"deadlock": w, "deadlock_at": where()})
				os.Exit(68)
			}
			since = time.Now() // no witness: keep waiting, the parent's watchdog stays the (inconclusive) backstop
		}
	}()
}

var storageFrame = regexp.MustCompile(`facebookincubator/dns/dnsrocks/(dnsdata/rdb|cgo-rocksdb|db)\.`)

// storageGoroutines returns the normalised stacks of goroutines that are blocked (chan/select/lock) inside the
// storage packages.
func storageGoroutines() []string {
	buf := make([]byte, 16<<20)
	buf = buf[:runtime.Stack(buf, true)]
	var out []string
	for _, g := range strings.Split(string(buf), "\n\n") {
		m := gHeader.FindStringSubmatch(g)
		own := g
		if i := strings.Index(own, "\ncreated by "); i >= 0 {
			own = own[:i]
		}
		if m == nil || !storageFrame.MatchString(own) {
			continue
		}
		st := m[2]
		if !(strings.HasPrefix(st, "chan ") || st == "select" || strings.HasPrefix(st, "sync.") || st == "semacquire") {
			continue
		}
		nl := strings.IndexByte(own, '\n')
		if nl < 0 {
			continue
		}
		out = append(out, "["+st+"]\n"+gAddrs.ReplaceAllString(own[nl+1:], ""))
	}
	sort.Strings(out)
	return out
}
