package checks

import (
	"encoding/json"
	"fmt"
	"math/rand"
	"os"
	"strings"
	"sync"
	"time"

	"github.com/facebookincubator/dns/dnsrocks/dnsserver"

	"verif/internal/harness"
	"verif/internal/report"
	"verif/internal/sched"
)

func init() {
	register("C05", "exploration", runC05, replayC05)
	Workers["c05stress"] = c05StressWorker
	Workers["c05sched"] = c05SchedWorker
}

var queryPoints = []string{"q:acquired", "q:located", "q:authchecked", "q:answered", "q:additional", "q:precache", "q:prewrite"}
var reloadPoints = []string{"r:locked", "r:reloaded", "r:swapped", "r:purged", "done"}

type c05Scenario struct {
	Backend    string `json:"backend"`
	Cache      bool   `json:"cache"`
	QueryPoint string `json:"query_parked_at"`
	ReloadStop string `json:"reload_run_to"`
	ReloadKind string `json:"reload_kind"`
	Query      int    `json:"query_index"`
	Timeout    bool   `json:"reload_timeout_1ns"`
}

const parkWait = 20 * time.Second

// c05RunScenario executes one scheduled interleaving on a fresh lab and returns its history + trace.
func c05RunScenario(sc c05Scenario) (ev []histEvent, initial int, trace []string, b harness.Backend, incon string, err error) {
	for _, x := range harness.Backends {
		if x.Name == sc.Backend {
			b = x
		}
	}
	opt := harness.ServerOpts{Cache: sc.Cache}
	if sc.Timeout {
		opt.ReloadTimeout = time.Nanosecond
	}
	l, err := newLab(b, opt, 100)
	if err != nil {
		return nil, 0, nil, b, "", err
	}
	defer l.close()
	if sc.Timeout {
		// a timed-out reload keeps running in a background goroutine of the code under test; closing the
		// handler while it still runs is a separate (C06) matter and would crash this process
		defer time.Sleep(400 * time.Millisecond)
	}
	initial = l.gen
	s := schedFor()
	dnsserver.SetVerifHook(s.Hook)
	defer dnsserver.SetVerifHook(nil)
	defer s.ReleaseAll()
	sq := stampQueries[sc.Query%len(stampQueries)]

	// warm query for another cache key: Q1 below must compute its answer (a cache hit would skip the yield points)
	l.query(1, stampQueries[(sc.Query+1)%len(stampQueries)], "warm")

	// Q1 is parked at its point while holding the old generation
	pq := s.ParkAt(sc.QueryPoint, matchQuery("Q1"))
	var wg sync.WaitGroup
	wg.Add(1)
	q1done := make(chan struct{})
	go func() { defer wg.Done(); defer close(q1done); l.query(2, sq, "Q1") }()
	if !arrivedOrDone(pq, q1done) {
		// the point is not on this query's path (e.g. q:answered for a referral, q:precache without cache): not a scenario
		pq.Release()
		wg.Wait()
		return nil, initial, s.Trace(), b, "query never reached " + sc.QueryPoint, nil
	}
	// the reload runs to its stop point (or to completion)
	kind := sc.ReloadKind
	var pr *sched.Parked
	if sc.ReloadStop != "done" {
		pr = s.ParkAt(sc.ReloadStop, matchReload)
	}
	var rwg sync.WaitGroup
	rwg.Add(1)
	var rerr error
	rdone := make(chan struct{})
	go func() {
		defer rwg.Done()
		defer close(rdone)
		_, _, rerr = l.reloadLabelled(kind, sc.Timeout)
	}()
	if pr != nil {
		if !arrivedOrDone(pr, rdone) {
			// failing reloads return before the later points: still a valid schedule (reload completed)
			pr.Release()
			pr = nil
		}
	}
	if pr == nil {
		rwg.Wait()
		// a query issued after the reload returned
		l.query(3, sq, "Q2")
	}
	// resume Q1; if the reload is parked mid-way Q1 completes (or blocks on the reload lock) meanwhile
	pq.Release()
	if pr != nil {
		time.Sleep(20 * time.Millisecond)
		pr.Release()
		rwg.Wait()
	}
	wg.Wait()
	// queries issued after everything returned
	l.query(3, sq, "Q3")
	l.query(2, sq, "Q4")
	if rerr != nil {
		return nil, initial, s.Trace(), b, "", rerr
	}
	l.hist.mu.Lock()
	ev = append(ev, l.hist.events...)
	l.hist.mu.Unlock()
	return ev, initial, s.Trace(), b, "", nil
}

// c05FreshDuringReload: a reload is held at one of its later points (new database installed / cache purged) and a
// client that has an old answer in the cache starts two queries there, first for a name that is not cached, then for
// the cached one. Whatever they are allowed to see, the client's generations must not go backwards, and no response
// may mix generations (they either wait for the reload or are answered from one side of the switch).
func c05FreshDuringReload(b harness.Backend, stop string, kind string) (viol []histViolation, incon string) {
	l, err := newLab(b, harness.ServerOpts{Cache: true}, 700)
	if err != nil {
		return nil, err.Error()
	}
	defer l.close()
	initial := l.gen
	s := schedFor()
	dnsserver.SetVerifHook(s.Hook)
	defer dnsserver.SetVerifHook(nil)
	defer s.ReleaseAll()
	cachedQ, otherQ := stampQueries[0], stampQueries[1]
	l.query(7, cachedQ, "warm") // now in the cache with the old generation
	pr := s.ParkAt(stop, matchReload)
	rdone := make(chan struct{})
	go func() { defer close(rdone); l.reload(kind) }()
	if !arrivedOrDone(pr, rdone) {
		pr.Release()
		<-rdone
		return nil, "reload never reached " + stop
	}
	qdone := make(chan struct{})
	go func() {
		defer close(qdone)
		l.query(7, otherQ, "F1")
		l.query(7, cachedQ, "F2")
	}()
	select {
	case <-qdone: // answered while the reload is held
	case <-time.After(300 * time.Millisecond): // waiting for the reload (they hold no verdict either way)
	}
	pr.Release()
	<-rdone
	<-qdone
	l.query(7, cachedQ, "F3")
	l.hist.mu.Lock()
	ev := append([]histEvent{}, l.hist.events...)
	l.hist.mu.Unlock()
	return checkHistory(ev, initial, b), ""
}

// arrivedOrDone waits until the park is reached or the goroutine that could reach it has finished.
// The generous timeout only guards against a wedged run; it yields "not reached", never a verdict.
func arrivedOrDone(p *sched.Parked, done <-chan struct{}) bool {
	got := make(chan bool, 1)
	go func() { got <- p.Arrived(parkWait) }()
	select {
	case ok := <-got:
		return ok
	case <-done:
		// finished: it may still have arrived just before finishing (not possible: a parked goroutine cannot finish)
		return false
	}
}

// reloadLabelled is reload() with the timeout label applied to the recorded kind.
func (l *lab) reloadLabelled(kind string, timeout bool) (bool, int, error) {
	ok, target, err := l.reload(kind)
	if timeout {
		l.hist.mu.Lock()
		for i := range l.hist.events {
			e := &l.hist.events[i]
			if e.Kind == "reload" && e.Target == target && e.ReloadKind == kind {
				e.ReloadKind = strings.Replace(kind, "-ok", "-timeout", 1)
			}
		}
		l.hist.mu.Unlock()
	}
	return ok, target, err
}

// c05Chain runs a sequential chain of mixed reloads and checks rule (v): a partial
// reload acts on the database last switched to, failures change nothing.
func c05Chain(r *report.Run, b harness.Backend, seed int64, n int, viaControl bool) {
	rng := rand.New(rand.NewSource(seed))
	opt := harness.ServerOpts{Cache: rng.Intn(2) == 0}
	ctrl := ""
	if viaControl {
		ctrl = harness.NewDir("c05ctrl-" + b.Name)
		defer os.RemoveAll(ctrl)
		opt.ControlPath = ctrl
	}
	l, err := newLab(b, opt, 500)
	if err != nil {
		r.Inconclusive("lab: " + err.Error())
		return
	}
	defer l.close()
	if viaControl {
		// the operator's interface: reload/switchdb files renamed into the control directory, consumed by the watcher
		// and the ReloadChan consumer as the production constructor wires them; a successful reload removes the file,
		// and from that moment on every query must be answered from the new generation
		h := l.srv.H
		go func() {
			for sig := range h.ReloadChan {
				h.Reload(sig)
			}
		}()
		go h.WatchControlDirAndReload()
		time.Sleep(100 * time.Millisecond)
		l.viaControl = ctrl
	}
	initial := l.gen
	kinds := []string{"full-ok", "partial-ok", "partial-ok", "full-missing-path", "full-unreadable", "full-novalidation", "full-ok", "full-back-ok", "full-back-ok", "full-same-ok", "full-same-ok"}
	var seq []string
	for i := 0; i < n; i++ {
		k := kinds[rng.Intn(len(kinds))]
		seq = append(seq, k)
		ok, target, err := l.reload(k)
		if err != nil {
			r.Inconclusive(fmt.Sprintf("%s: preparing reload %s: %v", b.Name, k, err))
			return
		}
		if viaControl && !ok && strings.HasSuffix(k, "-ok") {
			r.Inconclusive(fmt.Sprintf("%s: control file of reload %s not consumed within the wait", b.Name, k))
			return
		}
		if viaControl && strings.HasSuffix(k, "-ok") {
			r.Count("chain_reloads_requested_through_control_files", 1)
		}
		wantOK := strings.HasSuffix(k, "-ok")
		if ok != wantOK {
			r.Violation("", fmt.Sprintf("%s: reload %s (target generation %d) returned ok=%v", b.Name, k, target, ok), map[string]interface{}{"backend": b.Name, "seed": seed, "sequence": seq})
		}
		for qi := range stampQueries {
			l.query(1+qi%3, stampQueries[qi], fmt.Sprintf("c%d", i))
		}
		r.Count("chain_reloads_"+k, 1)
	}
	r.Eval(1)
	r.Nontrivial(fmt.Sprintf("chain-%s-%d", b.Name, seed))
	for _, v := range checkHistory(l.hist.events, initial, b) {
		r.Violation(v.Key, fmt.Sprintf("%s reload chain %v: rule (%s) %s", b.Name, seq, v.Rule, v.What), map[string]interface{}{"backend": b.Name, "seed": seed, "sequence": seq})
	}
	// rule (v) is implied: after every successful partial reload the queries above must carry its target
	// (checked by rule ii's lower bound), which only holds if the catch-up acted on the path last switched to.
}

func runC05(r *report.Run) {
	r.SetRule("every record of generation g carries the stamp g (TTL, A rdata, TXT, SOA serial); queries are TXT/MX/NS/referral/NXDOMAIN/wildcard/SOA so answer, authority and additional sections all carry stamps. (1) scheduled interleavings through the verif yield points: one query parked at each of its 7 points x a reload run to each of its 4 points or to completion x reload kinds {full ok, partial ok, missing path, unreadable, missing validation key, full/partial with a 1 ns reload timeout} x {cdb, rdb-v1, rdb-v2} x cache on/off; (1b) a reload held at r:swapped / r:purged while a client with a cached old answer asks an uncached and then the cached name; (2) sequential chains of mixed reloads (including switches back to the path served first, refreshed to a newer generation meanwhile, and full reloads naming the path already served after its content changed), also with the successful reloads requested through reload/switchdb files in a watched control directory (completion observed as the removal of the file); (3) free-running stress (8 clients + reloader, race-detector build). Every recorded history (call/return times at the client boundary, one monotonic clock) is checked offline: (i) one generation per response, (ii) no older generation after a successful reload returned and none from the future, (iii) per-client monotonic, (iv) the target of a failed reload is never observed. non-trivial = scenario in which the query really was parked at its point while the reload ran; distinct by hook-point sequence")
	r.Assume("generations increase along the workload and every attempted target generation is unique; a 5 s park timeout only classifies a point as 'not on this query's path', it never decides a verdict")
	type childOut struct {
		res *childResult
		err error
	}
	schedOut := make([]childOut, len(harness.Backends))
	stressOut := make([]childOut, len(harness.Backends))
	var cwg sync.WaitGroup
	for i, b := range harness.Backends {
		cwg.Add(2)
		go func(i int, b harness.Backend) {
			defer cwg.Done()
			res, err := runChild(false, "c05sched", []string{b.Name, r.Tier}, 30*time.Minute)
			schedOut[i] = childOut{res, err}
		}(i, b)
		go func(i int, b harness.Backend) {
			defer cwg.Done()
			res, err := runChild(true, "c05stress", []string{b.Name, fmt.Sprint(r.Seed), fmt.Sprint(r.Pick(20, 60))}, 20*time.Minute)
			stressOut[i] = childOut{res, err}
		}(i, b)
	}
	cwg.Wait()
	for i, b := range harness.Backends {
		res, err := schedOut[i].res, schedOut[i].err
		if err != nil {
			r.Inconclusive("scheduler child: " + err.Error())
			continue
		}
		if res.TimedOut || res.Summary == nil {
			last := ""
			if len(res.Journal) > 0 {
				last = res.Journal[len(res.Journal)-1]
			}
			if res.ExitCode != 0 && !res.TimedOut && last != "" {
				r.Violation("", fmt.Sprintf("%s: process died (exit %d) while running scenario %s:\n%s", b.Name, res.ExitCode, last, firstLines(res.Stderr, 12)), map[string]interface{}{"journal_last": last})
			} else {
				r.Inconclusive(fmt.Sprintf("%s: scheduler child ended without summary (exit %d, timed out %v), last scenario %s", b.Name, res.ExitCode, res.TimedOut, last))
			}
			continue
		}
		var sum c05SchedSummary
		bs, _ := json.Marshal(res.Summary)
		json.Unmarshal(bs, &sum)
		r.Eval(sum.Evaluations)
		for k, v := range sum.Counts {
			r.Count(k, v)
		}
		for _, t := range sum.Traces {
			r.Nontrivial(t)
		}
		for _, smp := range sum.Samples {
			if r.SampleN() < 3 {
				r.Sample(smp)
			}
		}
		for _, in := range sum.Inconclusive {
			r.Inconclusive(in)
		}
		for _, v := range sum.Violations {
			r.Violation(v.Key, v.What, v.Scenario)
		}
	}
	// fresh queries of a client with a cached old answer while a reload is held after the switch / after the purge
	for _, b := range harness.Backends {
		for _, stop := range []string{"r:swapped", "r:purged"} {
			for _, kind := range []string{"full-ok", "partial-ok"} {
				viol, incon := c05FreshDuringReload(b, stop, kind)
				r.Eval(1)
				r.Count("fresh_queries_during_held_reload_scenarios", 1)
				if incon != "" {
					r.Count("fresh_scenarios_not_applicable", 1)
					continue
				}
				r.Nontrivial(fmt.Sprintf("fresh-%s-%s-%s", b.Name, stop, kind))
				for _, v := range viol {
					r.Violation(v.Key, fmt.Sprintf("%s, reload (%s) held at %s while a client with a cached old answer asks an uncached and then the cached name: rule (%s) %s", b.Name, kind, stop, v.Rule, v.What), map[string]string{"backend": b.Name, "stop": stop, "kind": kind})
				}
			}
		}
	}
	// sequential chains (rule v)
	for i := 0; i < r.Pick(2, 20); i++ {
		for _, b := range harness.Backends {
			c05Chain(r, b, r.Seed*31+int64(i), r.Pick(10, 25), false)
		}
	}
	for i := 0; i < r.Pick(1, 6); i++ {
		for _, b := range harness.Backends {
			c05Chain(r, b, r.Seed*37+int64(i), r.Pick(10, 25), true)
		}
	}
	// free-running stress in the race build
	for i, b := range harness.Backends {
		res, err := stressOut[i].res, stressOut[i].err
		if err != nil {
			r.Inconclusive("stress child: " + err.Error())
			continue
		}
		total, uniq := dedupRaces(res.RaceLogs)
		r.Count("stress_race_reports", int64(total))
		if res.TimedOut {
			r.Inconclusive(b.Name + ": stress child timed out")
			continue
		}
		if q, ok := res.Summary["queries"].(float64); ok {
			r.Count("stress_queries", int64(q))
		}
		if q, ok := res.Summary["reloads"].(float64); ok {
			r.Count("stress_reloads", int64(q))
		}
		if res.Summary == nil {
			// exit code 66 is the race detector's; a missing summary means the worker itself failed
			r.Inconclusive(fmt.Sprintf("%s: stress child ended without summary (exit %d): %s", b.Name, res.ExitCode, lastLines(res.Stderr, 12)))
			continue
		}
		if vs, ok := res.Summary["violations"].([]interface{}); ok {
			for _, v := range vs {
				m, _ := v.(map[string]interface{})
				key, _ := m["Key"].(string)
				r.Violation(key, fmt.Sprintf("%s stress: rule (%v) %v", b.Name, m["Rule"], m["What"]), m)
			}
		}
		// races are C14's business; they are counted here and reported there
		_ = uniq
		r.Eval(1)
		r.Nontrivial("stress-" + b.Name)
	}
}

type c05SchedViolation struct {
	Key      string
	What     string
	Scenario c05Scenario
}

type c05SchedSummary struct {
	Evaluations  int
	Counts       map[string]int64
	Traces       []string
	Samples      []interface{}
	Inconclusive []string
	Violations   []c05SchedViolation
}

// c05SchedWorker runs the scheduled product for one backend.
func c05SchedWorker(args []string) int {
	bname, tier := args[0], args[1]
	thorough := tier == "thorough"
	rot := int(report.Seed() % 2) // the seed rotates which quarter of the product the quick tier runs
	sum := c05SchedSummary{Counts: map[string]int64{}}
	seenTrace := map[string]bool{}
	kinds := []struct {
		kind    string
		timeout bool
	}{{"full-ok", false}, {"partial-ok", false}, {"full-missing-path", false}, {"full-unreadable", false}, {"full-novalidation", false}, {"full-ok", true}, {"partial-ok", true}}
	bi := 0
	for i, b := range harness.Backends {
		if b.Name == bname {
			bi = i
		}
	}
	n := 0
	for ki, k := range kinds {
		for qi, qp := range queryPoints {
			for ri, rp := range reloadPoints {
				// quick tier: a deterministic half of the product, every value of every dimension still appears
				if !thorough && (bi+ki+qi+ri+rot)%2 != 0 {
					continue
				}
				cache := (qi+ri+ki)%2 == 0 || qp == "q:precache"
				sc := c05Scenario{Backend: bname, Cache: cache, QueryPoint: qp, ReloadStop: rp, ReloadKind: k.kind, Query: n, Timeout: k.timeout}
				n++
				journal("%+v", sc)
				ev, initial, trace, bb, incon, err := c05RunScenario(sc)
				sum.Evaluations++
				if err != nil {
					sum.Inconclusive = append(sum.Inconclusive, fmt.Sprintf("%+v: %v", sc, err))
					continue
				}
				if incon != "" {
					sum.Counts["scenarios_point_not_on_path"]++
					continue
				}
				sum.Counts["scheduled_scenarios"]++
				sum.Counts["kind_"+strings.Replace(k.kind, "-ok", map[bool]string{true: "-timeout", false: "-ok"}[k.timeout], 1)]++
				tk := strings.Join(trace, " ")
				if !seenTrace[tk] {
					seenTrace[tk] = true
					sum.Traces = append(sum.Traces, tk)
				}
				if len(sum.Samples) < 2 {
					sum.Samples = append(sum.Samples, map[string]interface{}{"scenario": sc, "hook_point_sequence": trace})
				}
				for _, v := range checkHistory(ev, initial, bb) {
					if len(sum.Violations) < 25 {
						sum.Violations = append(sum.Violations, c05SchedViolation{Key: v.Key, What: fmt.Sprintf("%+v: rule (%s) %s", sc, v.Rule, v.What), Scenario: sc})
					}
				}
			}
		}
	}
	sum.Counts["distinct_interleavings_"+bname] = int64(len(seenTrace))
	b, _ := json.Marshal(sum)
	fmt.Printf("SUMMARY %s\n", b)
	return 0
}

func firstLines(s string, n int) string {
	l := strings.Split(strings.TrimSpace(s), "\n")
	if len(l) > n {
		l = l[:n]
	}
	return strings.Join(l, "\n")
}

// c05StressWorker: 8 clients query continuously while a reloader walks through generations.
func c05StressWorker(args []string) int {
	bname, seed, gens := args[0], int64(1), 25
	fmt.Sscan(args[1], &seed)
	fmt.Sscan(args[2], &gens)
	var b harness.Backend
	for _, x := range harness.Backends {
		if x.Name == bname {
			b = x
		}
	}
	rng := rand.New(rand.NewSource(seed))
	l, err := newLab(b, harness.ServerOpts{Cache: true}, 1000)
	if err != nil {
		fmt.Println(err)
		return 2
	}
	defer l.close()
	initial := l.gen
	stop := make(chan struct{})
	var wg sync.WaitGroup
	for c := 0; c < 8; c++ {
		wg.Add(1)
		go func(c int) {
			defer wg.Done()
			i := 0
			for {
				select {
				case <-stop:
					return
				default:
				}
				l.query(10+c, stampQueries[(c+i)%len(stampQueries)], "s")
				i++
				if i%8 == 0 {
					time.Sleep(time.Millisecond) // keep the recorded history at a size the checker and the evidence can digest
				}
			}
		}(c)
	}
	kinds := []string{"full-ok", "partial-ok", "partial-ok", "full-missing-path", "full-novalidation", "full-unreadable"}
	nreload := 0
	for g := 0; g < gens; g++ {
		k := kinds[rng.Intn(len(kinds))]
		journal("reload %d %s", g, k)
		if _, _, err := l.reload(k); err != nil {
			fmt.Println("prepare:", err)
			close(stop)
			wg.Wait()
			return 2
		}
		nreload++
		time.Sleep(time.Duration(rng.Intn(3)) * time.Millisecond)
	}
	close(stop)
	wg.Wait()
	viol := checkHistory(l.hist.events, initial, b)
	nq := 0
	for _, e := range l.hist.events {
		if e.Kind == "query" {
			nq++
		}
	}
	if len(viol) > 30 {
		viol = viol[:30]
	}
	summary(map[string]interface{}{"queries": nq, "reloads": nreload, "violations": viol})
	return 0
}

func replayC05(r *report.Run, raw json.RawMessage) {
	var sc c05Scenario
	if err := json.Unmarshal(raw, &sc); err != nil || sc.Backend == "" {
		fmt.Println("recorded chain/stress case; re-run the check with the same VERIF_SEED")
		r.Violation("", "recorded case", nil)
		return
	}
	ev, initial, trace, b, incon, err := c05RunScenario(sc)
	fmt.Println("trace:", trace, incon, err)
	for _, v := range checkHistory(ev, initial, b) {
		fmt.Printf("rule (%s) %s\n", v.Rule, v.What)
		r.Violation(v.Key, v.What, sc)
	}
}
