package checks

import (
	"bytes"
	"encoding/json"
	"fmt"
	"math/rand"
	"sort"
	"strings"

	"github.com/facebookincubator/dns/dnsrocks/dnsdata/rdb"

	"verif/internal/gen"
	"verif/internal/harness"
	"verif/internal/report"
)

func init() {
	register("C08", "exploration", runC08, replayC08)
}

type c08Case struct {
	Seed   int64    `json:"seed"`
	Steps  int      `json:"steps"`
	V2     bool     `json:"v2_keys"`
	Step   int      `json:"failing_step"`
	Diff   []string `json:"diff,omitempty"`
	Broken string   `json:"broken_diff_kind,omitempty"`
}

// c08Chain generates a chain of data files (as line lists): each next file is an edit of the previous one.
func c08Chain(seed int64, steps int) [][]string {
	rng := rand.New(rand.NewSource(seed))
	w := gen.GenWorld(rng, gen.WorldOpts{Layout: rng.Intn(4)})
	var cur []string
	for _, l := range w.Lines {
		cur = append(cur, l.Text)
	}
	files := [][]string{cur}
	fresh := 0
	for s := 0; s < steps; s++ {
		var next []string
		// remove / keep / duplicate
		for _, l := range cur {
			switch x := rng.Intn(20); {
			case x < 3: // removed
			case x == 3 && !strings.HasPrefix(l, "%") && s%3 != 2: // duplicated line => two equal values under one key (not in a deletion-only step: its diff must hold '-' lines only)
				next = append(next, l, l)
			default:
				next = append(next, l)
			}
		}
		if s%3 == 2 {
			// a deletion-only step (the diff holds '-' lines only)
			files = append(files, next)
			cur = next
			continue
		}
		// additions from another world of the same layout (its subnets are dropped: one subnet is never declared twice with different locations)
		w2 := gen.GenWorld(rng, gen.WorldOpts{Layout: rng.Intn(4)})
		for _, l := range w2.Lines {
			if strings.HasPrefix(l.Text, "%") {
				continue
			}
			if rng.Intn(3) == 0 {
				next = append(next, l.Text)
			}
		}
		// records added under keys that already hold values
		if len(w.Owners) > 0 {
			for i := 0; i < 1+rng.Intn(5); i++ {
				o := w.Owners[rng.Intn(len(w.Owners))]
				fresh++
				next = append(next, fmt.Sprintf("+%s,192.0.9.%d,%d", gen.Octal(o), fresh%250, 100+fresh))
				if rng.Intn(2) == 0 {
					next = append(next, fmt.Sprintf("'%s,added-%d", gen.Octal(o), fresh))
				}
			}
		}
		// now and then a large change set, so that the diff is far bigger than any I/O buffer
		if rng.Intn(3) == 0 {
			nbig := 150 + rng.Intn(300)
			for i := 0; i < nbig; i++ {
				fresh++
				next = append(next, fmt.Sprintf("+bulk%05d.example.com,192.0.%d.%d,%d", fresh, (fresh>>8)%250, fresh%250, 100+fresh%5000))
			}
		}
		// subnets moving: fresh unique subnets so that range points churn
		for i := 0; i < rng.Intn(4); i++ {
			fresh++
			loc := []string{"aa", "bb", "zz"}[rng.Intn(3)]
			mapid := []string{"", "\\115\\141", "\\145\\143"}[rng.Intn(3)]
			cidr := fmt.Sprintf("10.%d.%d.0/%d", 1+rng.Intn(4), fresh%250, 24+rng.Intn(5))
			if rng.Intn(3) == 0 {
				cidr = fmt.Sprintf("2001:db8:%x::/%d", 0x100+fresh, 40+rng.Intn(20))
			}
			line := fmt.Sprintf("%%%s,%s", loc, cidr)
			if mapid != "" {
				line += "," + mapid
			}
			dup := false
			for _, l := range next {
				if strings.HasPrefix(l, "%") && strings.Contains(l, ","+cidr) {
					dup = true
				}
			}
			if !dup {
				next = append(next, line)
			}
		}
		rng.Shuffle(len(next), func(i, j int) { next[i], next[j] = next[j], next[i] })
		files = append(files, next)
		cur = next
	}
	return files
}

func c08Pre(lines []string) ([]string, error) {
	pre, err := c09Preprocess([]byte(strings.Join(lines, "\n") + "\n"))
	if err != nil {
		return nil, err
	}
	var out []string
	for _, l := range strings.Split(string(pre), "\n") {
		if l != "" {
			out = append(out, l)
		}
	}
	return out, nil
}

// c08Diff renders the multiset line difference a -> b as "-line" / "+line" in random order.
func c08Diff(a, b []string, rng *rand.Rand) []string {
	count := map[string]int{}
	for _, l := range a {
		count[l]--
	}
	for _, l := range b {
		count[l]++
	}
	keys := make([]string, 0, len(count))
	for k := range count {
		keys = append(keys, k)
	}
	sort.Strings(keys)
	var out []string
	for _, k := range keys {
		n := count[k]
		for ; n > 0; n-- {
			out = append(out, "+"+k)
		}
		for ; n < 0; n++ {
			out = append(out, "-"+k)
		}
	}
	rng.Shuffle(len(out), func(i, j int) { out[i], out[j] = out[j], out[i] })
	// diff line orders: fully shuffled; all deletions (shuffled) before all additions (and the reverse);
	// text-sorted; reverse text-sorted - the statement says "whatever the order of diff lines"
	switch rng.Intn(5) {
	case 1:
		sort.SliceStable(out, func(i, j int) bool { return out[i][0] == '-' && out[j][0] == '+' })
	case 2:
		sort.SliceStable(out, func(i, j int) bool { return out[i][0] == '+' && out[j][0] == '-' })
	case 3:
		sort.Strings(out)
	case 4:
		sort.Sort(sort.Reverse(sort.StringSlice(out)))
	}
	return out
}

func c08Apply(dir string, diff []string) error {
	db, err := rdb.NewUpdater(dir)
	if err != nil {
		return fmt.Errorf("NewUpdater: %w", err)
	}
	aerr := db.ApplyDiff(bytes.NewReader([]byte(strings.Join(diff, "\n")+"\n")), harness.Serial)
	cerr := db.Close()
	if aerr != nil {
		return aerr
	}
	return cerr
}

// c08Run executes one chain for one key layout.
func c08Run(r *report.Run, c c08Case) {
	files := c08Chain(c.Seed, c.Steps)
	rng := rand.New(rand.NewSource(c.Seed ^ 0x0d1ff))
	pre := make([][]string, len(files))
	for i, f := range files {
		p, err := c08Pre(f)
		if err != nil {
			r.Violation("", "preprocessing a well-formed file failed: "+err.Error(), c)
			return
		}
		pre[i] = p
	}
	dir := harness.NewDir("c08live")
	defer harness.Remove(dir)
	text0 := []byte(strings.Join(pre[0], "\n") + "\n")
	if err := harness.CompileRDB(text0, dir, harness.RDBOpts{V2: c.V2, Builder: true}); err != nil {
		r.Violation("", "compile failed: "+err.Error(), c)
		return
	}
	for step := 1; step < len(pre); step++ {
		diff := c08Diff(pre[step-1], pre[step], rng)
		cc := c
		cc.Step, cc.Diff = step, diff
		r.Eval(1)
		r.Count("diff_lines", int64(len(diff)))
		rp := 0
		for _, d := range diff {
			if strings.HasPrefix(d[1:], "!") {
				rp++
			}
		}
		r.Count("diff_range_point_lines", int64(rp))
		// all-or-nothing: broken variants of this diff must fail and change nothing
		if before, err := harness.DumpRDB(dir); err == nil {
			broken := map[string][]string{
				"delete-absent-value": append(append([]string{}, diff...), "-+absent-value.example.com,192.0.2.254,1"),
				"malformed-line":      append(append([]string{}, diff...), "+Xmalformed"),
				"bad-operation":       append(append([]string{}, diff...), "?+a.example.com,192.0.2.1"),
			}
			if len(diff) > 0 {
				// delete the same present line twice in excess
				for _, d := range diff {
					if d[0] == '-' {
						broken["delete-twice"] = append(append([]string{}, diff...), d, d, d)
						break
					}
				}
			}
			for kind, bd := range broken {
				rng.Shuffle(len(bd), func(i, j int) { bd[i], bd[j] = bd[j], bd[i] })
				err := c08Apply(dir, bd)
				r.Count("failing_diffs_applied", 1)
				cb := cc
				cb.Broken, cb.Diff = kind, bd
				if err == nil {
					if kind == "delete-twice" {
						// legitimately applicable if the line was present often enough; verified by the dump below instead
						after, _ := harness.DumpRDB(dir)
						if d := harness.DiffMultiset(after, before); d == "" {
							r.Violation("", "a diff deleting a line more often than it is present was accepted and changed nothing", cb)
						}
						// restore by recompiling the previous state
						harness.CompileRDB([]byte(strings.Join(pre[step-1], "\n")+"\n"), dir, harness.RDBOpts{V2: c.V2, Builder: true})
						continue
					}
					r.Violation("", fmt.Sprintf("diff that cannot be applied (%s) was accepted", kind), cb)
					continue
				}
				after, derr := harness.DumpRDB(dir)
				if derr != nil {
					r.Violation("", "dump after a failed diff: "+derr.Error(), cb)
					continue
				}
				if d := harness.DiffMultiset(after, before); d != "" {
					r.Violation("", fmt.Sprintf("failed diff (%s: %v) changed the database: %s", kind, err, d), cb)
				}
			}
		}
		if err := c08Apply(dir, diff); err != nil {
			r.Violation("", fmt.Sprintf("applying the diff of step %d failed: %v", step, err), cc)
			return
		}
		fresh := harness.NewDir("c08fresh")
		err := harness.CompileRDB([]byte(strings.Join(pre[step], "\n")+"\n"), fresh, harness.RDBOpts{V2: c.V2, Builder: true})
		if err != nil {
			harness.Remove(fresh)
			r.Violation("", "fresh compile failed: "+err.Error(), cc)
			return
		}
		got, err1 := harness.DumpRDB(dir)
		want, err2 := harness.DumpRDB(fresh)
		harness.Remove(fresh)
		if err1 != nil || err2 != nil {
			r.Violation("", fmt.Sprintf("dump: %v %v", err1, err2), cc)
			return
		}
		r.Count("keys_compared", int64(len(want)))
		multi := 0
		for _, v := range want {
			if len(v) > 1 {
				multi++
			}
		}
		r.Count("multi_value_keys_compared", int64(multi))
		r.Nontrivial(fmt.Sprintf("%d-%v-%d", c.Seed, c.V2, step))
		if d := harness.DiffMultiset(got, want); d != "" {
			r.Violation("", fmt.Sprintf("after applying the diff of step %d the database differs from a fresh compile of the new file: %s", step, d), cc)
			return
		}
	}
}

func runC08(r *report.Run) {
	r.SetRule("chains of generated data files (each next file: ~15% of the lines removed, some duplicated, records of another generated file added, records added under keys that already hold values, fresh subnets so that '!' range points churn; lines shuffled); every file is preprocessed with the dnsrocks-preproc codec settings and one fixed serial; the multiset line difference is rendered as -/+ lines in random order and applied with the real RDB.ApplyDiff to the RocksDB compiled from the previous file (v1 and v2 keys); the raw dump must equal the dump of a fresh compile of the next file. Before each step broken variants of the diff (delete an absent value, malformed line, bad operation, excess deletes) must fail and leave the dump unchanged. non-trivial = applied step; distinct by (chain seed, key layout, step)")
	r.Assume("value order under one key is not compared (multiset), as the statement says")
	nchains := r.Pick(16, 600)
	for i := 0; i < nchains; i++ {
		steps := 3
		if i%5 == 0 {
			steps = 6
		}
		for _, v2 := range []bool{false, true} {
			c := c08Case{Seed: r.Seed*23000009 + int64(i), Steps: steps, V2: v2}
			c08Run(r, c)
		}
		if i == 0 {
			files := c08Chain(r.Seed*23000009, 2)
			p0, _ := c08Pre(files[0])
			p1, _ := c08Pre(files[1])
			d := c08Diff(p0, p1, rand.New(rand.NewSource(1)))
			if len(d) > 12 {
				d = d[:12]
			}
			r.Sample(map[string]interface{}{"first_diff_lines": d})
		}
		if r.Violations() >= 10 {
			break
		}
	}
}

func replayC08(r *report.Run, raw json.RawMessage) {
	var c c08Case
	if err := json.Unmarshal(raw, &c); err != nil {
		r.Inconclusive(err.Error())
		return
	}
	c08Run(r, c08Case{Seed: c.Seed, Steps: c.Steps, V2: c.V2})
}
