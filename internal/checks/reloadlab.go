package checks

import (
	"bytes"
	"context"
	"errors"
	"fmt"
	"os"
	"path/filepath"
	"regexp"
	"sort"
	"strconv"
	"strings"
	"sync"
	"sync/atomic"
	"time"

	"github.com/facebookincubator/dns/dnsrocks/dnsdata/rdb"
	"github.com/facebookincubator/dns/dnsrocks/dnsserver"
	"github.com/miekg/dns"

	"verif/internal/harness"
	"verif/internal/sched"
)

// ---- generation-stamped data ----

// genLines is the data file of generation g: every record carries the stamp g
// (TTL = 1000+g, g inside A rdata, TXT, SOA serial).
func genLines(g int, withValidation bool) []string {
	ttl := 1000 + g
	ip := func(n int) string { return fmt.Sprintf("10.%d.%d.%d", (g>>8)&255, g&255, n) }
	l := []string{
		fmt.Sprintf("Zexample.com,ns1.example.com,admin.example.com,%d,16384,2048,1048576,2560,%d,,", g, ttl),
		fmt.Sprintf("&example.com,%s,ns1.example.com,%d,,", ip(1), ttl),
		fmt.Sprintf("&example.com,%s,ns2.example.com,%d,,", ip(5), ttl),
		fmt.Sprintf("'txt.example.com,gen-%d,%d,,", g, ttl),
		fmt.Sprintf("'txt.example.com,second-%d,%d,,", g, ttl),
		fmt.Sprintf("@mx.example.com,%s,mail.example.com,10,%d,,", ip(2), ttl),
		fmt.Sprintf("&deleg.example.com,%s,ns.deleg.example.com,%d,,", ip(3), ttl),
		fmt.Sprintf("+a.example.com,%s,%d,,,1", ip(4), ttl),
		fmt.Sprintf("+*.w.example.com,%s,%d,,,1", ip(6), ttl),
	}
	if withValidation {
		l = append(l, fmt.Sprintf("+valid.example.com,%s,%d,,,1", ip(9), ttl))
	}
	return l
}

// validationKey is the database key of valid.example.com for a backend.
func validationKey(b harness.Backend) []byte {
	name := []byte("\x05valid\x07example\x03com\x00")
	if b.V2 {
		return append([]byte("\x00o\x03com\x07example\x05valid\x00"), 0, 0)
	}
	return append([]byte{0, 0}, name...)
}

type stampQuery struct {
	name  string
	qtype uint16
}

var stampQueries = []stampQuery{
	{"txt.example.com.", dns.TypeTXT},
	{"mx.example.com.", dns.TypeMX},
	{"example.com.", dns.TypeNS},
	{"x.deleg.example.com.", dns.TypeA},
	{"nx.example.com.", dns.TypeA},
	{"q.w.example.com.", dns.TypeA},
	{"example.com.", dns.TypeSOA},
}

var genTxt = regexp.MustCompile(`(?:gen|second)-(\d+)`)

// stampsOf extracts the generation stamps of every record of a response.
func stampsOf(m *dns.Msg) []int {
	var out []int
	add := func(rr dns.RR) {
		if _, ok := rr.(*dns.OPT); ok {
			return
		}
		out = append(out, int(rr.Header().Ttl)-1000)
		switch v := rr.(type) {
		case *dns.A:
			if ip := v.A.To4(); ip != nil && ip[0] == 10 {
				out = append(out, int(ip[1])<<8|int(ip[2]))
			}
		case *dns.TXT:
			for _, t := range v.Txt {
				if mm := genTxt.FindStringSubmatch(t); mm != nil {
					n, _ := strconv.Atoi(mm[1])
					out = append(out, n)
				}
			}
		case *dns.SOA:
			out = append(out, int(v.Serial))
		}
	}
	for _, rr := range m.Answer {
		add(rr)
	}
	for _, rr := range m.Ns {
		add(rr)
	}
	for _, rr := range m.Extra {
		add(rr)
	}
	return out
}

// ---- history ----

type histEvent struct {
	Kind   string // "query" | "reload"
	Client int
	Call   int64
	Return int64
	// query
	Q      string
	Stamps []int
	NoResp bool
	// reload
	ReloadKind string
	Target     int // generation the reload tries to install (0 = none, e.g. missing path)
	OK         bool
	Err        string
	Overlap    bool // filled by the checker: some reload interval overlaps this query
}

type history struct {
	mu     sync.Mutex
	t0     time.Time
	events []histEvent
}

func newHistory() *history { return &history{t0: time.Now()} }
func (h *history) now() int64 {
	return int64(time.Since(h.t0))
}
func (h *history) add(e histEvent) {
	h.mu.Lock()
	h.events = append(h.events, e)
	h.mu.Unlock()
}

type histViolation struct {
	Rule string
	What string
	Key  string // known-finding predicate key, "" if none applies
}

// checkHistory applies rules (i)-(iv) to a recorded history. initial is the generation loaded at start.
func checkHistory(ev []histEvent, initial int, backend harness.Backend) []histViolation {
	var out []histViolation
	var reloads, queries []histEvent
	for _, e := range ev {
		if e.Kind == "reload" {
			reloads = append(reloads, e)
		} else {
			queries = append(queries, e)
		}
	}
	failed := map[int]histEvent{}
	for _, r := range reloads {
		if !r.OK && r.Target != 0 {
			failed[r.Target] = r
		}
	}
	sort.Slice(queries, func(i, j int) bool { return queries[i].Call < queries[j].Call })
	lastByClient := map[int]int{}
	for _, q := range queries {
		if q.NoResp || len(q.Stamps) == 0 {
			out = append(out, histViolation{Rule: "response", What: fmt.Sprintf("client %d %s: no stamped response", q.Client, q.Q)})
			continue
		}
		// does any partial reload on RocksDB overlap this query? (predicate of the open finding)
		overlapPartial := false
		for _, r := range reloads {
			if r.Call < q.Return && r.Return > q.Call && strings.HasPrefix(r.ReloadKind, "partial") && backend.Driver == "rocksdb" {
				overlapPartial = true
			}
		}
		key := ""
		if overlapPartial {
			key = "rocksdb-partial-reload-overlap"
		}
		// a timed-out RocksDB catch-up that was already started before this query returned keeps changing the
		// served data without a purge: mixed/older generations after it are consequences of that open finding
		for _, r := range reloads {
			if !r.OK && r.ReloadKind == "partial-timeout" && backend.Driver == "rocksdb" && r.Call < q.Return {
				key = "rocksdb-partial-reload-timeout"
			}
		}
		// (i) single generation
		g := q.Stamps[0]
		single := true
		for _, s := range q.Stamps {
			if s != g {
				single = false
			}
		}
		if !single {
			out = append(out, histViolation{Rule: "i", Key: key, What: fmt.Sprintf("client %d %s: one response mixes generations %v", q.Client, q.Q, q.Stamps)})
			continue
		}
		// (ii) visibility
		lower, upper := initial, initial
		for _, r := range reloads {
			if r.OK && r.Return < q.Call && r.Target > lower {
				lower = r.Target
			}
			if r.Call < q.Return && r.Target > upper {
				upper = r.Target
			}
		}
		if g < lower {
			out = append(out, histViolation{Rule: "ii", What: fmt.Sprintf("client %d %s started after the reload to generation %d had returned but was answered from generation %d", q.Client, q.Q, lower, g)})
		}
		if g > upper {
			out = append(out, histViolation{Rule: "ii", What: fmt.Sprintf("client %d %s answered from generation %d, which no reload had been asked for yet", q.Client, q.Q, g)})
		}
		// (iii) per client monotonic
		if last, ok := lastByClient[q.Client]; ok && g < last {
			out = append(out, histViolation{Rule: "iii", Key: key, What: fmt.Sprintf("client %d went backwards: generation %d after %d (%s)", q.Client, g, last, q.Q)})
		}
		lastByClient[q.Client] = g
		// (iv) failed targets never observed
		if r, bad := failed[g]; bad {
			k := ""
			if strings.Contains(r.ReloadKind, "timeout") && strings.HasPrefix(r.ReloadKind, "partial") && backend.Driver == "rocksdb" {
				k = "rocksdb-partial-reload-timeout"
			}
			out = append(out, histViolation{Rule: "iv", Key: k, What: fmt.Sprintf("client %d %s answered from generation %d although the reload to it (%s) returned an error: %s", q.Client, q.Q, g, r.ReloadKind, r.Err)})
		}
	}
	return out
}

// ---- lab ----

type ctxKey string

const qidKey ctxKey = "verif-query-id"

// lab is one handler with a controllable database path.
type lab struct {
	b       harness.Backend
	srv     *harness.Server
	dir     string // working directory holding all databases of this lab
	path    string // path the harness believes is being served
	gen     int    // generation last successfully installed (by the harness's bookkeeping)
	nextGen int
	hist    *history
	seq     int64
	lines   map[string][]string // path -> lines currently in that database (for in-place updates)
	// viaControl, when set, is the control directory: successful kinds of reload are requested through control files
	viaControl string
	firstPath  string // the path loaded at start (target of the full-back-ok kind)
}

func newLab(b harness.Backend, opt harness.ServerOpts, firstGen int) (*lab, error) {
	l := &lab{b: b, dir: harness.NewDir("lab-" + b.Name), hist: newHistory(), lines: map[string][]string{}, nextGen: firstGen}
	g := l.newGen()
	p, err := l.compileGen(g, true)
	if err != nil {
		return nil, err
	}
	opt.ValidationKey = validationKey(b)
	srv, err := harness.OpenServer(p, b, opt)
	if err != nil {
		return nil, err
	}
	l.srv, l.path, l.gen = srv, p, g
	l.firstPath = p
	return l, nil
}

var errControlNotConsumed = errors.New("control file still present after the wait")

// signalByControlFile asks for the reload the way an operator does: it renames a file into the control directory
// ("reload" for a catch-up, "switchdb" holding the new path for a switch). The handler removes the file at the end
// of a successful reload; its disappearance is the success the operator can observe.
func (l *lab) signalByControlFile(sig dnsserver.ReloadSignal) error {
	name, content := dnsserver.ControlFilePartialReload, ""
	if sig.Kind == dnsserver.FullReload {
		name, content = dnsserver.ControlFileFullReload, sig.Payload+"\n"
	}
	tmp := filepath.Join(l.dir, fmt.Sprintf("ctl-tmp-%d", atomic.AddInt64(&l.seq, 1)))
	if err := os.WriteFile(tmp, []byte(content), 0o644); err != nil {
		return err
	}
	dst := filepath.Join(l.viaControl, name)
	if err := os.Rename(tmp, dst); err != nil {
		return err
	}
	deadline := time.Now().Add(60 * time.Second)
	for time.Now().Before(deadline) {
		if _, err := os.Stat(dst); os.IsNotExist(err) {
			return nil
		}
		time.Sleep(200 * time.Microsecond)
	}
	return errControlNotConsumed
}

func (l *lab) newGen() int { l.nextGen++; return l.nextGen }

func (l *lab) close() {
	if l.srv != nil {
		l.srv.Close()
	}
	os.RemoveAll(l.dir)
}

func (l *lab) dbPath(g int) string {
	if l.b.Driver == "cdb" {
		return filepath.Join(l.dir, fmt.Sprintf("gen%d.cdb", g))
	}
	return filepath.Join(l.dir, fmt.Sprintf("gen%d", g))
}

func (l *lab) compileGen(g int, withValidation bool) (string, error) {
	p := l.dbPath(g)
	lines := genLines(g, withValidation)
	text := []byte(strings.Join(lines, "\n") + "\n")
	var err error
	if l.b.Driver == "cdb" {
		err = harness.CompileCDB(text, p, 1)
	} else {
		// batch mode: the bulk loader pre-allocates room for 20M keys on every run, far too heavy for hundreds of tiny generations
		err = harness.CompileRDB(text, p, harness.RDBOpts{V2: l.b.V2, BatchSize: 1000, BatchParallel: 1, NumCPU: 1})
	}
	l.lines[p] = lines
	return p, err
}

// updateInPlace writes generation g into the database at path (the one being served):
// RocksDB through the real ApplyDiff on the primary, CDB by replacing the file.
func (l *lab) updateInPlace(path string, g int) error {
	newLines := genLines(g, true)
	if l.b.Driver == "cdb" {
		tmp := path + ".tmp"
		if err := harness.CompileCDB([]byte(strings.Join(newLines, "\n")+"\n"), tmp, 1); err != nil {
			return err
		}
		l.lines[path] = newLines
		return os.Rename(tmp, path)
	}
	var diff []string
	for _, o := range l.lines[path] {
		diff = append(diff, "-"+o)
	}
	for _, n := range newLines {
		diff = append(diff, "+"+n)
	}
	db, err := rdb.NewUpdater(path)
	if err != nil {
		return err
	}
	aerr := db.ApplyDiff(bytes.NewReader([]byte(strings.Join(diff, "\n")+"\n")), harness.Serial)
	cerr := db.Close()
	if aerr != nil {
		return aerr
	}
	l.lines[path] = newLines
	return cerr
}

// reload performs one reload of the given kind and records it. Kinds:
// full-ok, partial-ok, full-missing-path, full-unreadable, full-novalidation, partial-novalidation.
func (l *lab) reload(kind string) (ok bool, target int, err error) {
	var sig dnsserver.ReloadSignal
	prep := func() error { return nil }
	switch kind {
	case "full-ok":
		target = l.newGen()
		p, e := l.compileGen(target, true)
		if e != nil {
			return false, target, e
		}
		sig = *dnsserver.NewFullReloadSignal(p)
		defer func() {
			if ok {
				l.path = p
			}
		}()
	case "full-back-ok":
		// switch back to the path served first (brought up to a new generation while it was not being served)
		if l.path == l.firstPath {
			return l.reload("full-ok")
		}
		target = l.newGen()
		if e := l.updateInPlace(l.firstPath, target); e != nil {
			return false, target, e
		}
		p := l.firstPath
		sig = *dnsserver.NewFullReloadSignal(p)
		defer func() {
			if ok {
				l.path = p
			}
		}()
	case "full-same-ok":
		// the content at the served path changes and the operator asks for a FULL reload naming that same path
		target = l.newGen()
		if e := l.updateInPlace(l.path, target); e != nil {
			return false, target, e
		}
		sig = *dnsserver.NewFullReloadSignal(l.path)
	case "partial-ok":
		target = l.newGen()
		if e := l.updateInPlace(l.path, target); e != nil {
			return false, target, e
		}
		sig = *dnsserver.NewPartialReloadSignal()
	case "full-missing-path":
		sig = *dnsserver.NewFullReloadSignal(filepath.Join(l.dir, "does-not-exist"))
	case "full-unreadable":
		p := filepath.Join(l.dir, fmt.Sprintf("garbage%d", atomic.AddInt64(&l.seq, 1)))
		if l.b.Driver == "cdb" {
			os.WriteFile(p, []byte("this is not a cdb file"), 0o000)
		} else {
			os.MkdirAll(p, 0o755)
			os.WriteFile(filepath.Join(p, "CURRENT"), []byte("garbage\n"), 0o644)
		}
		sig = *dnsserver.NewFullReloadSignal(p)
	case "full-novalidation":
		target = l.newGen()
		p, e := l.compileGen(target, false)
		if e != nil {
			return false, target, e
		}
		sig = *dnsserver.NewFullReloadSignal(p)
	default:
		return false, 0, fmt.Errorf("unknown reload kind %s", kind)
	}
	if e := prep(); e != nil {
		return false, target, e
	}
	call := l.hist.now()
	var rerr error
	if l.viaControl != "" && (kind == "full-ok" || kind == "partial-ok" || kind == "full-back-ok" || kind == "full-same-ok") {
		rerr = l.signalByControlFile(sig)
	} else {
		rerr = l.srv.H.Reload(sig)
	}
	ret := l.hist.now()
	ok = rerr == nil
	es := ""
	if rerr != nil {
		es = rerr.Error()
	}
	l.hist.add(histEvent{Kind: "reload", Call: call, Return: ret, ReloadKind: kind, Target: target, OK: ok, Err: es})
	if ok && target != 0 {
		l.gen = target
	}
	return ok, target, nil
}

// query sends one stamped query as client and records it; id names the query for the scheduler.
func (l *lab) query(client int, sq stampQuery, id string) histEvent {
	ctx := context.WithValue(context.Background(), qidKey, id)
	ctx = dnsserver.WithMaxAnswer(ctx, 4)
	req := harness.MakeQuery(sq.name, sq.qtype, uint16(client))
	w := harness.NewWriter("203.0.113.9", false)
	call := l.hist.now()
	func() {
		defer func() { recover() }()
		l.srv.H.ServeDNS(ctx, w, req)
	}()
	ret := l.hist.now()
	e := histEvent{Kind: "query", Client: client, Call: call, Return: ret, Q: fmt.Sprintf("%s/%d", sq.name, sq.qtype)}
	if m := w.Last(); m != nil {
		e.Stamps = stampsOf(m)
	} else {
		e.NoResp = true
	}
	l.hist.add(e)
	return e
}

// schedFor builds a scheduler whose hook names queries by their context id and reloads by "reload".
func schedFor() *sched.Sched {
	s := sched.New()
	s.Name = func(arg interface{}) string {
		switch v := arg.(type) {
		case context.Context:
			if id, ok := v.Value(qidKey).(string); ok {
				return id
			}
			return "query"
		case dnsserver.ReloadSignal:
			return "reload"
		}
		return "?"
	}
	return s
}

func matchQuery(id string) func(arg interface{}) bool {
	return func(arg interface{}) bool {
		c, ok := arg.(context.Context)
		if !ok {
			return false
		}
		v, _ := c.Value(qidKey).(string)
		return v == id
	}
}

func matchReload(arg interface{}) bool {
	_, ok := arg.(dnsserver.ReloadSignal)
	return ok
}
