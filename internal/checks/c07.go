package checks

import (
	"bytes"
	"encoding/json"
	"errors"
	"fmt"
	"io"
	"math/rand"
	"os"
	"path/filepath"
	"regexp"
	"runtime"
	"sort"
	"strings"
	"time"

	"github.com/facebookincubator/dns/dnsrocks/dnsdata"
	dnscdb "github.com/facebookincubator/dns/dnsrocks/dnsdata/cdb"

	"verif/internal/gen"
	"verif/internal/harness"
	"verif/internal/report"
)

func init() {
	register("C07", "exploration", runC07, replayC07)
	Workers["c07race"] = c07RaceWorker
}

type c07Setting struct {
	Name    string          `json:"name"`
	CDB     bool            `json:"cdb"`
	Workers int             `json:"workers,omitempty"`
	RDB     harness.RDBOpts `json:"rdb"`
}

var c07Settings = []c07Setting{
	{Name: "cdb-w1", CDB: true, Workers: 1},
	{Name: "cdb-w4", CDB: true, Workers: 4},
	{Name: "cdb-w16", CDB: true, Workers: 16},
	{Name: "rdb1-builder-cpu1", RDB: harness.RDBOpts{Builder: true, NumCPU: 1}},
	{Name: "rdb2-builder-cpu4", RDB: harness.RDBOpts{V2: true, Builder: true, NumCPU: 4}},
	{Name: "rdb1-builder-cpu16", RDB: harness.RDBOpts{Builder: true, NumCPU: 16}},
	{Name: "rdb2-batch7-par1", RDB: harness.RDBOpts{V2: true, BatchSize: 7, BatchParallel: 1, NumCPU: 4}},
	{Name: "rdb1-batch7-par4", RDB: harness.RDBOpts{BatchSize: 7, BatchParallel: 4, NumCPU: 16}},
	{Name: "rdb2-batch1000-par0", RDB: harness.RDBOpts{V2: true, BatchSize: 1000, BatchParallel: 0, NumCPU: 4}},
	{Name: "rdb1-batchdefault-par4", RDB: harness.RDBOpts{BatchSize: 0, BatchParallel: 4, NumCPU: 1}},
	{Name: "rdb1-batch7-par0", RDB: harness.RDBOpts{BatchSize: 7, BatchParallel: 0, NumCPU: 2}},
}

type c07Case struct {
	Kind    string     `json:"kind"`
	N       int        `json:"n"`
	Seed    int64      `json:"seed"`
	BadLine string     `json:"bad_line,omitempty"`
	BadPos  int        `json:"bad_pos,omitempty"`
	Input   string     `json:"input,omitempty"`
	Setting c07Setting `json:"setting"`
}

// c07File builds a data file of about n records.
func c07File(kind string, n int, seed int64) []string {
	rng := rand.New(rand.NewSource(seed))
	var lines []string
	switch kind {
	case "world":
		for len(lines) < n {
			w := gen.GenWorld(rng, gen.WorldOpts{Layout: -1})
			first := len(lines) == 0
			for _, l := range w.Lines {
				if !first && strings.HasPrefix(l.Text, "%") {
					// several worlds are concatenated: keep the subnets of the first one only, so that no
					// subnet is declared twice with different locations (which one wins is unspecified)
					continue
				}
				lines = append(lines, l.Text)
			}
		}
	default: // synthetic: numbered names so the sorted position of every key is known
		lines = append(lines, ".example.com,192.0.2.1,a,3600", "%ab,10.0.0.0/8,Ma", "%cd,10.1.0.0/16,Ma", "%ab,2001:db8::/32,Ma", "Mexample.com,Ma", "8*.example.com,Ma")
		if n >= 1000 {
			// two large maps: more than 1024 range points each in the derived subnet table (disjoint, non-adjacent
			// subnets with alternating locations, so that nothing is merged away)
			for i := 0; i < 700; i++ {
				lines = append(lines, fmt.Sprintf("%%%s,172.%d.%d.0/24,Mb", []string{"ab", "cd", "ef"}[i%3], 16+i/128, (i%128)*2))
			}
			for i := 0; i < 600; i++ {
				lines = append(lines, fmt.Sprintf("%%%s,2001:db8:%x::/48,Mc", []string{"cd", "ab"}[i%2], 0x1000+2*i))
			}
			lines = append(lines, "Mbig.example.com,Mb", "8big.example.com,Mc")
		}
		hot := map[int]int{}
		// hot keys placed to straddle the bulk loader's bucket cuts (30000, 60000) and every batch size
		for _, pos := range []int{29950, 29990, 30010, 59980, 60005, 500, 999, 7} {
			if pos < n {
				hot[pos] = 2 + rng.Intn(120)
			}
		}
		if n > 1200 {
			hot[1200] = 600
		}
		for i := 0; len(lines) < n; i++ {
			name := fmt.Sprintf("k%06d.example.com", i)
			reps := 1
			if h, ok := hot[len(lines)]; ok {
				reps = h
			}
			// in the big files most keys hold several values, so that wherever the bulk loader cuts its sorted
			// buckets (every 30 000 values) the cut falls inside a run of equal keys with high probability;
			// the evidence counts how many cuts really did (cutsInsideRuns)
			if reps == 1 && n >= 30000 && i%6 != 0 {
				reps = 5 + rng.Intn(4)
				for j := 0; j < reps; j++ {
					lines = append(lines, fmt.Sprintf("+%s,192.0.%d.%d,%d", name, rng.Intn(256), rng.Intn(256), 1+rng.Intn(5000)))
				}
				continue
			}
			for j := 0; j < reps; j++ {
				switch rng.Intn(5) {
				case 0:
					lines = append(lines, fmt.Sprintf("+%s,2001:db8::%x,%d,,%s,%d", name, rng.Intn(65536), rng.Intn(5000), []string{"", "ab", "cd"}[rng.Intn(3)], rng.Intn(10)))
				case 1:
					lines = append(lines, fmt.Sprintf("'%s,text-%d-%d", name, i, j))
				case 2:
					lines = append(lines, fmt.Sprintf("@%s,192.0.2.%d,mx%d,%d", name, rng.Intn(256), j, rng.Intn(100)))
				default:
					lines = append(lines, fmt.Sprintf("+%s,192.0.%d.%d,%d", name, rng.Intn(256), rng.Intn(256), rng.Intn(5000)))
				}
			}
		}
		// records whose last field ends in a blank or a TAB (part of the field)
		lines = append(lines, "'trail1.example.com,ends with a blank ", "'trail2.example.com,ends with a tab\t", "+trail3.example.com,192.0.2.9,300,,x ")
		// comments, blank and indented lines the parser must skip or trim
		lines = append(lines, "# a comment", "", "   +indented.example.com,192.0.2.200,60", "#")
	}
	return lines
}

// c07Reference is the multiset the line-by-line codec emits (plus accumulator and feature records).
func c07Reference(lines []string, s c07Setting) (harness.Dump, error) {
	c := new(dnsdata.Codec)
	c.Serial = harness.Serial
	if !s.CDB {
		c.Acc.Ranger.Enable()
		c.Acc.NoPrefixSets = true
		c.NoRnetOutput = true
		c.Features.UseV2Keys = s.RDB.V2
	}
	out := harness.Dump{}
	addAll := func(m []dnsdata.MapRecord) {
		for _, r := range m {
			out[string(r.Key)] = append(out[string(r.Key)], string(r.Value))
		}
	}
	for _, l := range lines {
		line := bytes.TrimLeft([]byte(l), " ")
		if len(line) < 2 || line[0] == '#' {
			continue
		}
		m, err := c.ConvertLn(line)
		if err != nil {
			return nil, fmt.Errorf("line %q: %w", l, err)
		}
		addAll(m)
	}
	m, err := c.Acc.MarshalMap()
	if err != nil {
		return nil, err
	}
	addAll(m)
	m, err = c.Features.MarshalMap()
	if err != nil {
		return nil, err
	}
	addAll(m)
	return out, nil
}

var c07Frame = regexp.MustCompile(`\+0x[0-9a-f]+|0x[0-9a-f]+|goroutine \d+`)

// c07StuckGoroutines returns the normalised stacks of goroutines that are inside the compilers.
func c07StuckGoroutines() []string {
	buf := make([]byte, 8<<20)
	buf = buf[:runtime.Stack(buf, true)]
	var out []string
	for _, g := range strings.Split(string(buf), "\n\n") {
		if strings.Contains(g, "checks.c07CompileFrom") || strings.Contains(g, "dnsdata/rdb.compile") || strings.Contains(g, "dnsdata/cdb.CreateCDB") || strings.Contains(g, "dnsdata.ParseStream") || strings.Contains(g, "dnsdata.parse") {
			out = append(out, c07Frame.ReplaceAllString(g, ""))
		}
	}
	return out
}

// c07Compile runs one compile with a watchdog. hung=true comes with a structural witness when all
// compiler goroutines are blocked at identical frames in two dumps taken 2 s apart.
func c07Compile(text []byte, s c07Setting, path string, limit time.Duration) (err error, hung bool, witness string) {
	return c07CompileFrom(bytes.NewReader(text), s, path, limit)
}

func c07CompileFrom(rd io.Reader, s c07Setting, path string, limit time.Duration) (err error, hung bool, witness string) {
	done := make(chan error, 1)
	go func() {
		defer func() {
			if e := recover(); e != nil {
				done <- fmt.Errorf("%w: %v", errC07Panic, e)
			}
		}()
		if s.CDB {
			done <- harness.CompileCDBFrom(rd, path, s.Workers)
		} else {
			done <- harness.CompileRDBFrom(rd, path, s.RDB)
		}
	}()
	select {
	case err = <-done:
		return err, false, ""
	case <-time.After(limit):
	}
	// the watchdog only starts the examination: a compilation that is merely slow (a machine loaded far beyond its
	// cores, the bulk loader's large allocations) is waited for up to ten more minutes; a deadlock is declared only
	// when the goroutine running THIS compilation and every other compiler goroutine sit blocked at identical frames
	// in two dumps 2 s apart
	for round := 0; round < 10; round++ {
		a := c07StuckGoroutines()
		time.Sleep(2 * time.Second)
		select {
		case err = <-done:
			return err, false, ""
		default:
		}
		b := c07StuckGoroutines()
		blocked := len(a) > 0 && len(a) == len(b)
		mine := false
		for i := range a {
			if !blocked || a[i] != b[i] || !(strings.Contains(a[i], "[chan send") || strings.Contains(a[i], "[chan receive") || strings.Contains(a[i], "[semacquire") || strings.Contains(a[i], "[select") || strings.Contains(a[i], "[sync.")) {
				blocked = false
			}
			if strings.Contains(a[i], "checks.c07CompileFrom") {
				mine = true
			}
		}
		if blocked && mine {
			return nil, true, strings.Join(a, "\n\n")
		}
		select {
		case err = <-done:
			return err, false, ""
		case <-time.After(60 * time.Second):
		}
	}
	return nil, true, ""
}

// c07Limit is the watchdog of one compilation: generous (the largest file compiles in a few
// seconds), and only a structural witness turns its firing into a violation.
func c07Limit(nlines int) time.Duration {
	return time.Duration(150+nlines/200) * time.Second
}

func c07Path(s c07Setting) string {
	if s.CDB {
		return filepath.Join(harness.NewDir("c07cdb"), "data.cdb")
	}
	return harness.NewDir("c07rdb")
}

// c07Check compiles lines under one setting and compares the dump with the reference.
func c07Check(lines []string, s c07Setting) (msg string, inconclusive string, keys int) {
	text := []byte(strings.Join(lines, "\n") + "\n")
	ref, err := c07Reference(lines, s)
	if err != nil {
		return "", "reference codec rejected the file: " + err.Error(), 0
	}
	path := c07Path(s)
	defer harness.Remove(path)
	err, hung, witness := c07Compile(text, s, path, c07Limit(len(lines)))
	if hung {
		if witness != "" {
			return "compilation does not return: all compiler goroutines are blocked at identical frames in two dumps 2 s apart:\n" + witness, "", 0
		}
		return "", "compilation still running after the watchdog, no structural deadlock witness", 0
	}
	if err != nil {
		return "compilation of a well-formed file failed: " + err.Error(), "", 0
	}
	if !s.CDB && s.RDB.Builder {
		c07CutsInRuns += cutsInsideRuns(ref, 30000)
	}
	var got harness.Dump
	if s.CDB {
		got, err = harness.DumpCDB(path)
	} else {
		got, err = harness.DumpRDB(path)
	}
	if err != nil {
		return "dump failed: " + err.Error(), "", 0
	}
	if d := harness.DiffMultiset(got, ref); d != "" {
		return "compiled database differs from the codec's records: " + d, "", len(ref)
	}
	return "", "", len(ref)
}

var c07CutsInRuns int

// cutsInsideRuns counts the multiples of step (sorted value index) that fall strictly inside a run of equal keys.
func cutsInsideRuns(ref harness.Dump, step int) int {
	keys := make([]string, 0, len(ref))
	for k := range ref {
		keys = append(keys, k)
	}
	sort.Strings(keys)
	n, idx, next := 0, 0, step
	for _, k := range keys {
		c := len(ref[k])
		for next < idx+c {
			if next > idx {
				n++
			}
			next += step
		}
		idx += c
	}
	return n
}

var c07BadLines = []string{"\t+tab-indented.example.com,192.0.2.1", "Xbad.example.com,192.0.2.1", "+bad.example.com,192.0.2.1,300,,\\q", "%ab,300.1.2.3/8,Ma", "%\\q,10.0.0.0/8", "Bbad.example.com,.,300,,1,port=x"}

// c07CheckFailing inserts a rejected line; every setting must fail.
func c07CheckFailing(lines []string, bad string, pos int, s c07Setting) (msg string, inconclusive string) {
	l2 := append(append(append([]string{}, lines[:pos]...), bad), lines[pos:]...)
	text := []byte(strings.Join(l2, "\n") + "\n")
	path := c07Path(s)
	defer harness.Remove(path)
	err, hung, witness := c07Compile(text, s, path, c07Limit(len(lines)))
	if hung {
		if witness != "" {
			return "compilation of a file with a rejected line does not return (structural deadlock witness):\n" + witness, ""
		}
		return "", "compile with a rejected line still running after the watchdog"
	}
	if errors.Is(err, errC07Panic) {
		return fmt.Sprintf("file with the rejected line %q at line %d: %v", bad, pos+1, err), ""
	}
	if err == nil {
		return fmt.Sprintf("file with the rejected line %q at line %d compiled without error", bad, pos+1), ""
	}
	if s.CDB {
		// the file-based entry point must also remove its partial output
		in := filepath.Join(filepath.Dir(path), "in.txt")
		os.WriteFile(in, text, 0o644)
		out := filepath.Join(filepath.Dir(path), "out.cdb")
		_, err := dnscdb.CreateCDB(in, out, &dnscdb.CreatorOptions{NumCPU: s.Workers})
		if err == nil {
			return "CreateCDB accepted a file with a rejected line", ""
		}
		if _, serr := os.Stat(out); serr == nil {
			return "CreateCDB failed but left its partial output file behind", ""
		}
	}
	return "", ""
}

// c07Reader delivers text in reads of at most chunk bytes and, when failAt >= 0, fails with errInjected once
// failAt bytes have been delivered (withData: the failing read also returns the bytes before the fault).
type c07Reader struct {
	text     []byte
	off      int
	chunk    int
	failAt   int
	withData bool
}

var errC07Injected = errors.New("injected read error")

// errC07Panic marks a compilation that panicked (recovered in the goroutine that called the compiler).
var errC07Panic = errors.New("the compiler panicked")

func (r *c07Reader) Read(p []byte) (int, error) {
	if r.failAt >= 0 && r.off >= r.failAt {
		return 0, errC07Injected
	}
	if r.off >= len(r.text) {
		return 0, io.EOF
	}
	n := len(p)
	if r.chunk > 0 && n > r.chunk {
		n = r.chunk
	}
	if n > len(r.text)-r.off {
		n = len(r.text) - r.off
	}
	if r.failAt >= 0 && r.off+n >= r.failAt {
		n = r.failAt - r.off
		copy(p, r.text[r.off:r.off+n])
		r.off += n
		if r.withData || n == 0 {
			return n, errC07Injected
		}
		return n, nil
	}
	copy(p, r.text[r.off:r.off+n])
	r.off += n
	return n, nil
}

// c07CheckInput: the way the input arrives must not make a compilation succeed with records missing.
// kind "shortreads": the reader returns 1..chunk bytes per call - the database must equal the reference;
// kind "readerror": the reader fails after pos bytes - the compilation must fail (or, succeeding, hold the whole file);
// kind "longline": a comment line longer than the scanner's 64 KiB token limit sits at line pos - the compilation may fail
// as a whole, but if it reports success the database must hold every record of the file.
func c07CheckInput(lines []string, s c07Setting, kind string, pos int) (msg string, inconclusive string) {
	ref, err := c07Reference(lines, s)
	if err != nil {
		return "", "reference codec rejected the file: " + err.Error()
	}
	l2 := lines
	if kind == "longline" {
		l2 = append(append(append([]string{}, lines[:pos]...), "#"+strings.Repeat("x", 66000+pos%5000)), lines[pos:]...)
	}
	text := []byte(strings.Join(l2, "\n") + "\n")
	rd := &c07Reader{text: text, failAt: -1}
	switch kind {
	case "shortreads":
		rd.chunk = 1 + pos%97
	case "readerror":
		rd.failAt = pos % len(text)
		rd.withData = pos%2 == 0
		rd.chunk = 4096
	}
	path := c07Path(s)
	defer harness.Remove(path)
	err, hung, witness := c07CompileFrom(rd, s, path, c07Limit(len(lines)))
	if hung {
		if witness != "" {
			return "compilation (" + kind + ") does not return (structural deadlock witness):\n" + witness, ""
		}
		return "", "compile (" + kind + ") still running after the watchdog"
	}
	if errors.Is(err, errC07Panic) {
		return "compilation (" + kind + "): " + err.Error(), ""
	}
	if err != nil {
		if kind == "shortreads" {
			return "compilation failed because the reader returned short reads: " + err.Error(), ""
		}
		return "", "" // failed as a whole: allowed
	}
	var got harness.Dump
	if s.CDB {
		got, err = harness.DumpCDB(path)
	} else {
		got, err = harness.DumpRDB(path)
	}
	if err != nil {
		return "dump failed: " + err.Error(), ""
	}
	if d := harness.DiffMultiset(got, ref); d != "" {
		what := "the reader returned short reads"
		switch kind {
		case "readerror":
			what = fmt.Sprintf("the reader failed after %d of %d bytes", rd.failAt, len(text))
		case "longline":
			what = fmt.Sprintf("line %d is a %d-byte comment", pos+1, len(l2[pos]))
		}
		return fmt.Sprintf("compilation reported success although %s, and the database does not hold the file's records: %s", what, d), ""
	}
	return "", ""
}

func runC07(r *report.Run) {
	r.SetRule("data files of ~50, ~5 000 and ~70 000 records (generated worlds and synthetic numbered names with hot keys of 2-600 values placed across the bulk loader's bucket cuts at 30 000/60 000 and across every batch boundary, plus comments/blank/indented lines; the medium and large files declare two maps of 700 and 600 disjoint subnets, i.e. more than 1024 range points each) compiled under 11 settings (CDB workers 1/4/16; RocksDB builder with 1/4/16 CPUs; batches of size 7/1000/default with parallelism 1/4/0; v1/v2 keys); the full raw dump (key -> multiset of values) must equal the records the sequential line codec emits plus accumulator and feature records. Failing-line variant: one rejected line at a random position must make every setting fail (CreateCDB must remove its output). Input-delivery variants: a reader returning short reads (database must be complete), a reader failing after N bytes and a comment line beyond the scanner's 64 KiB limit (the compilation may fail as a whole, but success with records missing is a violation). A compile that does not return is examined with a structural deadlock witness. non-trivial = (file, setting) with >=1 key holding >=2 values; distinct by (file, setting)")
	r.Assume("reference = the repository's own line codec run sequentially, as the statement defines it; order of values under one key is not compared (multiset)")
	type fileSpec struct {
		kind string
		n    int
	}
	files := []fileSpec{{"world", 50}, {"synthetic", 60}, {"world", 5000}, {"synthetic", 5000}}
	if r.Thorough() {
		files = append(files, fileSpec{"world", 300}, fileSpec{"synthetic", 31000}, fileSpec{"synthetic", 70000}, fileSpec{"world", 20000})
	} else {
		files = append(files, fileSpec{"synthetic", 70000})
	}
	rng := rand.New(rand.NewSource(r.Seed*17 + 7))
	deadlocked := map[string]bool{}
	for fi, f := range files {
		seed := r.Seed*19000003 + int64(fi)
		lines := c07File(f.kind, f.n, seed)
		settings := c07Settings
		if f.n >= 30000 && !r.Thorough() {
			settings = []c07Setting{c07Settings[2], c07Settings[4], c07Settings[5], c07Settings[8], c07Settings[9]}
		}
		for _, s := range settings {
			if deadlocked[s.Name] {
				continue // already reported with a witness; every further run would only burn the watchdog
			}
			msg, inc, keys := c07Check(lines, s)
			r.Eval(1)
			r.Count("compilations", 1)
			r.Count("keys_compared", int64(keys))
			r.Count("lines_compiled", int64(len(lines)))
			if f.n >= 60000 && !s.CDB && s.RDB.Builder {
				r.Count("builder_runs_with_3_or_more_buckets", 1)
			}
			r.Nontrivial(fmt.Sprintf("%s-%d-%d-%s", f.kind, f.n, seed, s.Name))
			if inc != "" {
				r.Inconclusive(s.Name + ": " + inc)
			}
			if strings.Contains(msg, "does not return") {
				deadlocked[s.Name] = true
			}
			if msg != "" {
				key := ""
				r.Violation(key, fmt.Sprintf("%s, %s file of %d lines: %s", s.Name, f.kind, len(lines), msg), c07Case{Kind: f.kind, N: f.n, Seed: seed, Setting: s})
			}
		}
		if fi == 1 {
			r.Sample(map[string]interface{}{"kind": f.kind, "lines": lines[:8]})
		}
		// failing-line variants on the small and medium files
		if f.n <= 5000 {
			for bi, bad := range c07BadLines {
				pos := rng.Intn(len(lines) + 1)
				for si, s := range c07Settings {
					if f.n > 100 && (si+bi)%3 != 0 {
						continue // medium files: a third of the combinations
					}
					if deadlocked[s.Name] {
						continue
					}
					msg, inc := c07CheckFailing(lines, bad, pos, s)
					r.Eval(1)
					r.Count("failing_line_compilations", 1)
					if inc != "" {
						r.Inconclusive(s.Name + ": " + inc)
					}
					if strings.Contains(msg, "does not return") {
						deadlocked[s.Name] = true
					}
					if msg != "" {
						r.Violation("", fmt.Sprintf("%s: %s", s.Name, msg), c07Case{Kind: f.kind, N: f.n, Seed: seed, BadLine: bad, BadPos: pos, Setting: s})
					}
				}
			}
		}
		// input-delivery variants on the small and medium files
		if f.n <= 5000 {
			for ki, kind := range []string{"shortreads", "readerror", "readerror", "longline", "longline"} {
				for si, s := range c07Settings {
					if (si+ki+fi)%3 != 0 || deadlocked[s.Name] {
						continue
					}
					pos := rng.Intn(len(lines))
					if kind == "readerror" {
						pos = rng.Intn(len(lines) * 20)
					}
					msg, inc := c07CheckInput(lines, s, kind, pos)
					r.Eval(1)
					r.Count("input_delivery_compilations_"+kind, 1)
					if inc != "" {
						r.Inconclusive(s.Name + ": " + inc)
					}
					if msg != "" {
						r.Violation("", fmt.Sprintf("%s: %s", s.Name, msg), c07Case{Kind: f.kind, N: f.n, Seed: seed, Setting: s, Input: kind, BadPos: pos})
					}
				}
			}
		}
		if r.Violations() >= 10 {
			break
		}
	}
	r.Count("builder_bucket_cuts_inside_a_run_of_equal_keys", int64(c07CutsInRuns))
	r.Sample(map[string]interface{}{"settings": c07Settings})
	if r.Thorough() {
		res, err := runChild(true, "c07race", []string{fmt.Sprint(r.Seed)}, 40*time.Minute)
		if err != nil {
			r.Inconclusive("race child: " + err.Error())
			return
		}
		total, uniq := dedupRaces(res.RaceLogs)
		r.Count("race_detector_reports", int64(total))
		for _, u := range uniq {
			r.Violation("", "data race in the parallel parser / batch writers:\n"+u.Text, map[string]interface{}{"report": u.Text})
		}
		if res.TimedOut {
			r.Inconclusive("race child timed out")
		} else if res.ExitCode != 0 && total == 0 {
			r.Violation("", "race-build compile run failed: "+lastLines(res.Stdout+res.Stderr, 20), nil)
		}
	}
}

func c07RaceWorker(args []string) int {
	var seed int64 = 1
	if len(args) > 0 {
		fmt.Sscan(args[0], &seed)
	}
	rc := 0
	for fi, f := range []struct {
		kind string
		n    int
	}{{"world", 2000}, {"synthetic", 3000}} {
		lines := c07File(f.kind, f.n, seed*19000003+int64(100+fi))
		for _, s := range c07Settings {
			journal("%s %d %s", f.kind, f.n, s.Name)
			if msg, inc, _ := c07Check(lines, s); msg != "" || inc != "" {
				fmt.Printf("%s: %s %s\n", s.Name, msg, inc)
				rc = 1
			}
		}
	}
	return rc
}

func replayC07(r *report.Run, raw json.RawMessage) {
	var c c07Case
	if err := json.Unmarshal(raw, &c); err != nil {
		r.Inconclusive(err.Error())
		return
	}
	lines := c07File(c.Kind, c.N, c.Seed)
	var msg string
	if c.BadLine != "" {
		msg, _ = c07CheckFailing(lines, c.BadLine, c.BadPos, c.Setting)
	} else if c.Input != "" {
		msg, _ = c07CheckInput(lines, c.Setting, c.Input, c.BadPos)
	} else {
		msg, _, _ = c07Check(lines, c.Setting)
	}
	fmt.Println(msg)
	if msg != "" {
		r.Violation("", msg, c)
	}
}
