package checks

import (
	"encoding/json"
	"fmt"
	"math/rand"
	"net"
	"sort"
	"strings"

	"github.com/miekg/dns"

	"verif/internal/gen"
	"verif/internal/harness"
	"verif/internal/model"
	"verif/internal/report"
)

func init() {
	register("C01", "exploration", runC01, replayC01)
}

type c01Case struct {
	WorldSeed int64      `json:"world_seed"`
	Layout    int        `json:"layout"`
	Backend   string     `json:"backend"`
	Name      string     `json:"qname"`
	Type      uint16     `json:"qtype"`
	Client    gen.Client `json:"client"`
	File      string     `json:"file,omitempty"`
}

func ip16(s string) (out [16]byte) {
	copy(out[:], net.ParseIP(s).To16())
	return
}

// clientLoc computes the location the statement prescribes for a client and name.
func clientLoc(m *model.Maps, qname string, c gen.Client) (loc string, viaECS bool) {
	if c.ECS != "" {
		_, n, err := net.ParseCIDR(c.ECS)
		if err == nil {
			ones, bits := n.Mask.Size()
			var ip [16]byte
			copy(ip[:], n.IP.To16())
			if bits == 32 {
				ones += 96
			}
			if l, _, _, matched := m.ECSLoc(qname, ip, ones); matched {
				return l, true
			}
		}
	}
	l, _ := m.ResolverLoc(qname, ip16(c.IP))
	return l, false
}

func expectedStrings(rrs []model.RR) []string {
	out := make([]string, len(rrs))
	for i, r := range rrs {
		out[i] = harness.CanonRR{Owner: r.Owner, Type: r.Type, Class: dns.ClassINET, TTL: r.TTL, Rdata: r.Rdata}.String()
	}
	sort.Strings(out)
	return out
}

func sameStrings(a, b []string) bool {
	if len(a) != len(b) {
		return false
	}
	for i := range a {
		if a[i] != b[i] {
			return false
		}
	}
	return true
}

// c01Compare checks one response against the model; returns "" when it conforms.
func c01Compare(ix *model.Index, exp *model.Expected, resp *dns.Msg, qname string, loc string) string {
	if resp == nil {
		return "no response written"
	}
	got := harness.CanonMsg(resp)
	if exp.Class == "unspecified" {
		return ""
	}
	if got.TC {
		return "" // truncated for the client's buffer: which records survive is not prescribed (size rule: C13/C20)
	}
	if got.Rcode != exp.Rcode {
		return fmt.Sprintf("rcode %d, prescribed %d (%s)", got.Rcode, exp.Rcode, exp.Class)
	}
	if got.AA != exp.AA {
		return fmt.Sprintf("AA=%v, prescribed %v (%s)", got.AA, exp.AA, exp.Class)
	}
	switch exp.Class {
	case "refused":
		if len(got.Answer)+len(got.Ns)+len(got.Extra) != 0 {
			return "REFUSED response carries records"
		}
		return ""
	case "referral":
		if len(got.Answer) != 0 {
			return fmt.Sprintf("referral carries an answer: %v", got.Answer)
		}
		if want := expectedStrings(exp.NS); !sameStrings(got.Ns, want) {
			return fmt.Sprintf("referral authority %v, prescribed NS set of %q: %v", got.Ns, exp.Cut, want)
		}
		// glue: one address per target and family when a visible positive-weight one exists
		gotBy := map[string][]harness.CanonRR{}
		for _, a := range got.ExtraAddrs {
			gotBy[fmt.Sprintf("%s/%d", a.Owner, a.Type)] = append(gotBy[fmt.Sprintf("%s/%d", a.Owner, a.Type)], a)
		}
		if len(got.Extra) != len(got.ExtraAddrs) {
			return fmt.Sprintf("referral additional section holds non-address records: %v", got.Extra)
		}
		for target, cands := range exp.Glue {
			for _, t := range []uint16{dns.TypeA, dns.TypeAAAA} {
				var want []string
				for _, c := range cands {
					if c.Type == t {
						want = append(want, harness.CanonRR{Owner: target, Type: t, Class: dns.ClassINET, TTL: c.TTL, Rdata: c.Rdata}.String())
					}
				}
				k := fmt.Sprintf("%s/%d", target, t)
				g := gotBy[k]
				delete(gotBy, k)
				if len(want) == 0 {
					if len(g) != 0 {
						return fmt.Sprintf("glue %v for %s although no visible positive-weight address is declared", g, target)
					}
					continue
				}
				if len(g) != 1 {
					return fmt.Sprintf("%d glue records of type %d for %s, prescribed exactly one of %d candidates", len(g), t, target, len(want))
				}
				ok := false
				for _, w := range want {
					if w == g[0].String() {
						ok = true
					}
				}
				if !ok {
					return fmt.Sprintf("glue %s is not among the declared candidates %v", g[0], want)
				}
			}
		}
		for k, g := range gotBy {
			return fmt.Sprintf("additional section holds %v (%s), which is not glue of the delegation's NS set", g, k)
		}
		return ""
	}
	// authoritative
	if want := expectedStrings(exp.Answer); !sameStrings(got.Answer, want) {
		return fmt.Sprintf("%s: answer %v, prescribed %v", exp.Class, got.Answer, want)
	}
	if len(exp.Answer) == 0 {
		var want []string
		if exp.SOA != nil {
			want = expectedStrings([]model.RR{*exp.SOA})
		}
		if !sameStrings(got.Ns, want) {
			return fmt.Sprintf("%s: authority %v, prescribed the zone's SOA %v", exp.Class, got.Ns, want)
		}
	} else {
		// authority of a positive answer is left open by the statement: soundness only
		for _, rr := range resp.Ns {
			c := harness.CanonOf(rr)
			if !ix.SoundAt(c.Owner, loc)[fmt.Sprintf("%d %d %x", c.TTL, c.Type, c.Rdata)] {
				return fmt.Sprintf("authority record %s is not a declared record visible to the client", c)
			}
		}
	}
	for _, a := range got.ExtraAddrs {
		if !ix.SoundAt(a.Owner, loc)[fmt.Sprintf("%d %d %x", a.TTL, a.Type, a.Rdata)] {
			return fmt.Sprintf("additional record %s is not a declared record visible to the client", a)
		}
	}
	return ""
}

type c01Servers struct {
	srv   []*harness.Server
	paths []string
}

func openAll(text []byte, opt harness.ServerOpts) (*c01Servers, error) {
	s := &c01Servers{}
	for _, b := range harness.Backends {
		p, err := harness.Compile(text, b)
		s.paths = append(s.paths, p)
		if err != nil {
			s.close()
			return nil, fmt.Errorf("%s: compile: %v", b.Name, err)
		}
		sv, err := harness.OpenServer(p, b, opt)
		if err != nil {
			s.close()
			return nil, fmt.Errorf("%s: load: %v", b.Name, err)
		}
		s.srv = append(s.srv, sv)
	}
	return s, nil
}

func (s *c01Servers) close() {
	for _, sv := range s.srv {
		sv.Close()
	}
	for _, p := range s.paths {
		harness.Remove(p)
	}
}

func buildQuery(q gen.Query, c gen.Client, rng *rand.Rand, id uint16) *dns.Msg {
	name := gen.Presentation(q.Name)
	if rng != nil && rng.Intn(3) == 0 {
		name = strings.ToUpper(name[:1]) + name[1:]
	}
	m := harness.MakeQuery(name, q.Type, id)
	if c.ECS != "" {
		harness.AddECS(m, c.ECS, 4096)
	} else if rng != nil && rng.Intn(4) == 0 {
		harness.AddECS(m, "", 1232)
	}
	return m
}

func c01World(seed int64, layout int) *gen.World {
	return gen.GenWorld(rand.New(rand.NewSource(seed)), gen.WorldOpts{Layout: layout})
}

func c01One(ix *model.Index, w *gen.World, sv *harness.Server, q gen.Query, c gen.Client, rng *rand.Rand, maxAns int) (msg string, exp *model.Expected, loc string) {
	loc, _ = clientLoc(w.Maps, q.Name, c)
	exp = ix.Resolve(q.Name, q.Type, loc)
	req := buildQuery(q, c, rng, 4711)
	res := sv.Serve(req, harness.NewWriter(c.IP, len(q.Name) > 60), maxAns) // long names over TCP so that answers are not truncated
	if res.Panic != "" {
		return "handler panicked: " + res.Panic, exp, loc
	}
	if res.Msg == nil {
		return fmt.Sprintf("no response (handler returned rcode %d, err %v); prescribed %s", res.Rcode, res.Err, exp.Class), exp, loc
	}
	if res.PackEr != nil {
		return "response does not pack: " + res.PackEr.Error(), exp, loc
	}
	return c01Compare(ix, exp, res.Msg, q.Name, loc), exp, loc
}

func runC01(r *report.Run) {
	r.SetRule("seeded well-formed data files (structured description rendered with syntactic variety: all line types, both separators, default/explicit fields, octal escapes, mixed case, wildcards, nested zones, delegations with in-zone/below-cut/out-of-zone glue, occluded data, root/TLD zones, root delegation, empty file, locations and maps) compiled to CDB, RocksDB v1 and v2; queries = every owner, its ancestors and children, names through wild-safe and non-wild-safe labels, names outside the zones x declared and standard types x clients of every location (resolver and ECS); each response compared with a reference resolver working on the structured description only. non-trivial = distinct (file, query, location) whose prescribed class is not 'refused'; distinct by (file hash, qname, qtype, location)")
	r.Assume("address answers are compared with max-answer >= number of candidates (then the served set is the set of positive-weight candidates); sections the statement leaves open (authority/additional of positive answers) are checked for soundness only; DS follows the code's documented special case (at a delegation point the authority decision is taken one label up, i.e. the parent zone answers; strictly below a delegation it is a referral); ANY/non-IN are outside this oracle (see C02/C13)")
	nfiles := r.Pick(60, 1500)
	for i := 0; i < nfiles; i++ {
		seed := r.Seed*1000003 + int64(i)
		layout := -1
		if i < 10 {
			layout = i // every layout at least once
		}
		w := c01World(seed, layout)
		text := w.Text()
		rng := rand.New(rand.NewSource(seed ^ 0x5bd1e995))
		ix := model.NewIndex(w.Recs)
		servers, err := openAll(text, harness.ServerOpts{})
		r.Eval(1)
		if err != nil {
			r.Violation("", "well-formed file rejected: "+err.Error(), c01Case{WorldSeed: seed, Layout: layout, File: string(text)})
			continue
		}
		qs := w.Queries(rng, r.Pick(250, 400))
		clients := w.Clients(rng)
		maxAns := ix.MaxCandidates() + 1
		if i < 2 {
			r.Sample(map[string]interface{}{"file": strings.Split(strings.TrimSpace(string(text)), "\n"), "queries": len(qs), "clients": len(clients)})
		}
		r.Count("files_layout_"+fmt.Sprint(layoutName(w)), 1)
		for _, l := range w.Lines {
			if len(l.Text) > 0 {
				r.Count("line_type_"+l.Text[:1], 1)
			}
		}
		for _, q := range qs {
			// two clients per query: one random, one located if possible
			cs := []gen.Client{clients[rng.Intn(len(clients))]}
			if len(clients) > 2 {
				cs = append(cs, clients[2+rng.Intn(len(clients)-2)])
			}
			for _, c := range cs {
				for _, sv := range servers.srv {
					msg, exp, loc := c01One(ix, w, sv, q, c, rng, maxAns)
					r.Count("responses", 1)
					r.Count("class_"+exp.Class, 1)
					r.Count("backend_"+sv.B.Name, 1)
					if loc != "" {
						r.Count("located_client_responses", 1)
					}
					if q.Type == 43 {
						r.Count("ds_queries_prescribed_"+exp.Class, 1)
						if plain := ix.Resolve(q.Name, 1, loc); plain.Class == "referral" && exp.Class != "referral" && exp.Class != "unspecified" {
							r.Count("ds_queries_at_a_delegation_answered_from_the_parent_zone", 1)
						}
					}
					if wl := len(q.Name) + 2; wl >= 94 && exp.Class != "refused" { // name of >= 94 wire octets: database key of >= 96 bytes
						r.Count("responses_for_names_of_94_or_more_octets", 1)
						if wl >= 254 {
							r.Count("responses_for_names_of_254_or_255_octets", 1)
						}
					}
					if exp.Class != "refused" {
						r.Nontrivial(fmt.Sprintf("%d/%s/%d/%q", seed, q.Name, q.Type, loc))
						for _, a := range exp.Answer {
							r.Count(fmt.Sprintf("answer_type_%d", a.Type), 1)
						}
					}
					if msg != "" {
						r.Violation("", fmt.Sprintf("%s: query %q type %d from %+v (location %q): %s", sv.B.Name, q.Name, q.Type, c, loc, msg),
							c01Case{WorldSeed: seed, Layout: layout, Backend: sv.B.Name, Name: q.Name, Type: q.Type, Client: c, File: string(text)})
					}
				}
			}
		}
		servers.close()
		if r.Violations() >= 20 {
			break
		}
	}
	// the run must have seen every response class
	for _, cl := range []string{"positive", "cname", "wildcard", "nodata", "nxdomain", "referral", "refused"} {
		if r.Counter("class_"+cl) == 0 {
			r.Inconclusive("response class never produced: " + cl)
		}
	}
}

func layoutName(w *gen.World) string {
	if w.Comment != "" {
		return strings.ReplaceAll(w.Comment, " ", "_")
	}
	if len(w.Zones) == 0 {
		return "empty"
	}
	return strings.Join(w.Zones, "+")
}

func replayC01(r *report.Run, raw json.RawMessage) {
	var c c01Case
	if err := json.Unmarshal(raw, &c); err != nil {
		r.Inconclusive(err.Error())
		return
	}
	w := c01World(c.WorldSeed, c.Layout)
	if c.File != "" && string(w.Text()) != c.File {
		fmt.Println("note: the generator no longer reproduces the recorded file from its seed; replaying the regenerated world")
	}
	ix := model.NewIndex(w.Recs)
	servers, err := openAll(w.Text(), harness.ServerOpts{})
	if err != nil {
		fmt.Println(err)
		r.Violation("", err.Error(), c)
		return
	}
	defer servers.close()
	for _, sv := range servers.srv {
		if c.Backend != "" && sv.B.Name != c.Backend {
			continue
		}
		msg, exp, loc := c01One(ix, w, sv, gen.Query{Name: c.Name, Type: c.Type}, c.Client, nil, ix.MaxCandidates()+1)
		fmt.Printf("%s: prescribed %s (location %q): %s\n", sv.B.Name, exp.Class, loc, msg)
		if msg != "" {
			r.Violation("", msg, c)
		}
	}
}
