// Package report collects what a check observed and writes the evidence file,
// replay files and the VIOLATION / KNOWN-FINDING lines of the manifest contract.
package report

import (
	"bufio"
	"encoding/json"
	"fmt"
	"hash/fnv"
	"os"
	"path/filepath"
	"sort"
	"strconv"
	"strings"
	"sync"
	"time"
)

// Root is the /verif directory (VERIF_ROOT, default: current directory).
func Root() string {
	if r := os.Getenv("VERIF_ROOT"); r != "" {
		return r
	}
	wd, _ := os.Getwd()
	return wd
}

// Finding is one line of KNOWN_FINDINGS.txt.
type Finding struct {
	Open     bool
	Property string
	Key      string
	Text     string
}

// LoadFindings parses KNOWN_FINDINGS.txt (missing file = no findings).
func LoadFindings() []Finding {
	f, err := os.Open(filepath.Join(Root(), "KNOWN_FINDINGS.txt"))
	if err != nil {
		return nil
	}
	defer f.Close()
	var out []Finding
	sc := bufio.NewScanner(f)
	sc.Buffer(make([]byte, 1<<20), 1<<20)
	for sc.Scan() {
		line := strings.TrimSpace(sc.Text())
		if line == "" || strings.HasPrefix(line, "#") {
			continue
		}
		var fd Finding
		switch {
		case strings.HasPrefix(line, "open:"):
			fd.Open = true
			line = strings.TrimSpace(line[5:])
		case strings.HasPrefix(line, "fixed:"):
			line = strings.TrimSpace(line[6:])
		default:
			continue
		}
		rest := []string{}
		for _, w := range strings.Fields(line) {
			switch {
			case strings.HasPrefix(w, "property=") && fd.Property == "":
				fd.Property = w[len("property="):]
			case strings.HasPrefix(w, "key=") && fd.Key == "" && fd.Open:
				fd.Key = w[len("key="):]
			default:
				rest = append(rest, w)
			}
		}
		fd.Text = strings.Join(rest, " ")
		out = append(out, fd)
	}
	return out
}

// Violation is one recorded violation.
type Violation struct {
	Key    string      `json:"finding_key,omitempty"`
	What   string      `json:"what"`
	Replay interface{} `json:"replay"`
}

// Run accumulates the observations of one check run.
type Run struct {
	ID    string
	Tier  string
	Seed  int64
	Level string

	mu          sync.Mutex
	start       time.Time
	evals       int64
	distinct    map[uint64]struct{}
	rule        string
	samples     []interface{}
	maxSamples  int
	counters    map[string]int64
	extra       map[string]interface{}
	assumptions []string
	violations  []Violation
	suppressed  map[string]int
	open        map[string]Finding
	exhaustive  bool
	inconcl     []string
	maxViol     int
}

// Seed returns VERIF_SEED (default 1).
func Seed() int64 {
	if s := os.Getenv("VERIF_SEED"); s != "" {
		if v, err := strconv.ParseInt(s, 10, 64); err == nil {
			return v
		}
	}
	return 1
}

// New starts a run.
func New(id, tier, level string) *Run {
	r := &Run{ID: id, Tier: tier, Seed: Seed(), Level: level, start: time.Now(),
		distinct: map[uint64]struct{}{}, counters: map[string]int64{}, extra: map[string]interface{}{},
		suppressed: map[string]int{}, open: map[string]Finding{}, maxSamples: 6, maxViol: 20}
	for _, f := range LoadFindings() {
		if f.Open && f.Property == id {
			r.open[f.Key] = f
		}
	}
	return r
}

// Thorough reports whether this is the thorough tier.
func (r *Run) Thorough() bool { return r.Tier == "thorough" }

// Pick returns q for quick and t for thorough.
func (r *Run) Pick(q, t int) int {
	if r.Thorough() {
		return t
	}
	return q
}

// SetRule states how cases are generated and what makes one non-trivial.
func (r *Run) SetRule(s string) { r.mu.Lock(); r.rule = s; r.mu.Unlock() }

// Assume records an assumption.
func (r *Run) Assume(s string) { r.mu.Lock(); r.assumptions = append(r.assumptions, s); r.mu.Unlock() }

// Eval counts executed cases.
func (r *Run) Eval(n int) { r.mu.Lock(); r.evals += int64(n); r.mu.Unlock() }

// Nontrivial records a distinct non-trivial case by its identifying string.
func (r *Run) Nontrivial(key string) {
	h := fnv.New64a()
	h.Write([]byte(key))
	v := h.Sum64()
	r.mu.Lock()
	r.distinct[v] = struct{}{}
	r.mu.Unlock()
}

// Count adds to a named observation counter.
func (r *Run) Count(name string, n int64) { r.mu.Lock(); r.counters[name] += n; r.mu.Unlock() }

// Counter reads a counter.
func (r *Run) Counter(name string) int64 { r.mu.Lock(); defer r.mu.Unlock(); return r.counters[name] }

// Set stores an extra coverage key.
func (r *Run) Set(name string, v interface{}) { r.mu.Lock(); r.extra[name] = v; r.mu.Unlock() }

// Exhaustive marks the run as a complete enumeration.
func (r *Run) Exhaustive() { r.mu.Lock(); r.exhaustive = true; r.mu.Unlock() }

// Sample keeps up to a handful of literal cases.
func (r *Run) Sample(v interface{}) {
	r.mu.Lock()
	if len(r.samples) < r.maxSamples {
		r.samples = append(r.samples, v)
	}
	r.mu.Unlock()
}

// SampleN reports how many samples are stored.
func (r *Run) SampleN() int { r.mu.Lock(); defer r.mu.Unlock(); return len(r.samples) }

// Inconclusive records a reason the run could not decide.
func (r *Run) Inconclusive(why string) {
	r.mu.Lock()
	r.inconcl = append(r.inconcl, why)
	r.mu.Unlock()
}

// IsOpen tells whether an open known finding with that key is listed for this property.
func (r *Run) IsOpen(key string) bool { _, ok := r.open[key]; return ok }

// Violation records a violation. key names the known-finding predicate the
// witness satisfies ("" if none). It is suppressed only if an open finding
// with that key is listed for this property.
func (r *Run) Violation(key, what string, replay interface{}) {
	r.mu.Lock()
	defer r.mu.Unlock()
	if key != "" {
		if _, ok := r.open[key]; ok {
			r.suppressed[key]++
			return
		}
	}
	if len(r.violations) < r.maxViol {
		r.violations = append(r.violations, Violation{Key: key, What: what, Replay: replay})
	} else {
		r.counters["violations_beyond_cap"]++
	}
}

// Violations returns the number of unsuppressed violations so far.
func (r *Run) Violations() int { r.mu.Lock(); defer r.mu.Unlock(); return len(r.violations) }

// Suppressed returns how many witnesses matched the open finding key.
func (r *Run) Suppressed(key string) int { r.mu.Lock(); defer r.mu.Unlock(); return r.suppressed[key] }

// Finish writes evidence and replay files, prints the contract lines and returns the exit code.
func (r *Run) Finish() int {
	r.mu.Lock()
	defer r.mu.Unlock()
	root := Root()
	os.MkdirAll(filepath.Join(root, "evidence"), 0o755)
	os.MkdirAll(filepath.Join(root, "replays"), 0o755)

	cov := map[string]interface{}{}
	for k, v := range r.extra {
		cov[k] = v
	}
	cov["evaluations"] = r.evals
	cov["distinct_nontrivial"] = len(r.distinct)
	cov["rule"] = r.rule
	samples := r.samples
	if samples == nil {
		samples = []interface{}{}
	}
	cov["samples"] = samples
	obs := map[string]int64{}
	for k, v := range r.counters {
		obs[k] = v
	}
	cov["observed"] = obs
	if r.exhaustive {
		cov["exhaustive"] = true
	}
	if len(r.suppressed) > 0 {
		cov["known_finding_witnesses"] = r.suppressed
	}
	if len(r.inconcl) > 0 {
		cov["inconclusive"] = r.inconcl
	}
	ev := map[string]interface{}{
		"property_id": r.ID,
		"tier":        r.Tier,
		"seed":        r.Seed,
		"level":       r.Level,
		"coverage":    cov,
		"assumptions": append([]string{}, r.assumptions...),
		"wall_s":      time.Since(r.start).Seconds(),
		"violations":  len(r.violations),
	}
	code := 0
	// self-check: a run that observed nothing is not a pass
	if len(r.violations) == 0 && (r.evals < 1 || len(r.distinct) < 2 || len(samples) < 1) {
		r.inconcl = append(r.inconcl, "run observed too little (evaluations/distinct/samples)")
		cov["inconclusive"] = r.inconcl
	}
	b, _ := json.MarshalIndent(ev, "", " ")
	if err := os.WriteFile(filepath.Join(root, "evidence", r.ID+".json"), append(b, '\n'), 0o644); err != nil {
		fmt.Fprintf(os.Stderr, "cannot write evidence: %v\n", err)
		code = 2
	}
	keys := make([]string, 0, len(r.open))
	for k := range r.open {
		keys = append(keys, k)
	}
	sort.Strings(keys)
	for _, k := range keys {
		f := r.open[k]
		fmt.Printf("KNOWN-FINDING: property=%s key=%s %s (witnesses this run: %d)\n", r.ID, k, f.Text, r.suppressed[k])
	}
	for i, v := range r.violations {
		p := filepath.Join(root, "replays", fmt.Sprintf("%s-%d-%d.json", r.ID, r.Seed, i))
		vb, err := json.MarshalIndent(map[string]interface{}{"property": r.ID, "seed": r.Seed, "tier": r.Tier, "what": v.What, "finding_key": v.Key, "case": v.Replay}, "", " ")
		if err != nil {
			vb = []byte(fmt.Sprintf("{\"property\":%q,\"what\":%q}", r.ID, v.What))
		}
		os.WriteFile(p, append(vb, '\n'), 0o644)
		fmt.Printf("VIOLATION property=%s replay=%s\n", r.ID, p)
		fmt.Printf("  what: %s\n", firstLine(v.What))
		code = 1
	}
	if code == 0 && len(r.inconcl) > 0 {
		for _, s := range r.inconcl {
			fmt.Printf("INCONCLUSIVE property=%s %s\n", r.ID, s)
		}
		code = 2
	}
	fmt.Printf("%s %s seed=%d evaluations=%d distinct_nontrivial=%d violations=%d wall=%.1fs\n",
		r.ID, r.Tier, r.Seed, r.evals, len(r.distinct), len(r.violations), time.Since(r.start).Seconds())
	return code
}

func firstLine(s string) string {
	if i := strings.IndexByte(s, '\n'); i >= 0 {
		s = s[:i]
	}
	if len(s) > 600 {
		s = s[:600] + "…"
	}
	return s
}
