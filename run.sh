#!/bin/bash
# ./run.sh <ID> quick|thorough|replay <path>
# Rebuilds the harness from /repo's current working tree (hooks on) and runs one check.
set -u
cd "$(dirname "$0")"
export VERIF_ROOT="$PWD"
export GOFLAGS=-mod=mod GOPROXY=off GOSUMDB=off GOTOOLCHAIN=local CGO_ENABLED=1
export GOMAXPROCS="${GOMAXPROCS:-$(nproc)}"
ID="${1:?property id}"; MODE="${2:?quick|thorough|replay}"; shift 2
mkdir -p bin evidence replays
# Registered commands always build against /repo's working tree. Only background sweeps started with
# `vp run --with-repo` set VP_RUN_REPO (a snapshot of /repo's HEAD) so that they are not disturbed by
# seeded patches being applied to /repo meanwhile; their results are never used as evidence.
MODFLAG=""
if [ -n "${VP_RUN_REPO:-}" ] && [ -d "$VP_RUN_REPO/dnsrocks" ]; then
  sed "s#=> /repo/dnsrocks#=> $VP_RUN_REPO/dnsrocks#" go.mod > bin/alt.mod
  cp go.sum bin/alt.sum
  MODFLAG="-modfile=$PWD/bin/alt.mod"
  echo "note: building against the /repo snapshot $VP_RUN_REPO (background sweep, not evidence)"
fi
LOCK=bin/.build.lock
build() { # $1 = output, rest = extra flags
  local out="$1"; shift
  ( flock 9; go build $MODFLAG -tags verif -ldflags=-checklinkname=0 "$@" -o "$out" ./cmd/vcheck ) 9>"$LOCK" 2>bin/build.$$.log
  local rc=$?
  if [ $rc -ne 0 ]; then echo "BUILD FAILED ($out):"; cat bin/build.$$.log; rm -f bin/build.$$.log; exit 2; fi
  rm -f bin/build.$$.log
}
case "$ID" in
  C05|C07|C11|C12|C14|C19|C20) RACE=1 ;;
  *) RACE=0 ;;
esac
build bin/vcheck
if [ "$RACE" = 1 ]; then build bin/vcheck-race -race; export VERIF_RACE_BIN="$PWD/bin/vcheck-race"; fi
export VERIF_BIN="$PWD/bin/vcheck" VERIF_MODFLAG="$MODFLAG"
SCRATCH="$(mktemp -d "${VERIF_SCRATCH_BASE:-/var/tmp}/verif-$ID-XXXXXX")"
trap 'rm -rf "$SCRATCH"' EXIT
export VERIF_SCRATCH="$SCRATCH" TMPDIR="$SCRATCH"
if [ "$MODE" = thorough ]; then LIMIT="${VERIF_WATCHDOG:-14400}"; else LIMIT="${VERIF_WATCHDOG:-2400}"; fi
timeout -s QUIT -k 20 "$LIMIT" bin/vcheck "$ID" "$MODE" "$@" 2>"$SCRATCH/stderr.log"
rc=$?
if [ $rc -ne 0 ] && [ $rc -ne 1 ]; then
  echo "check $ID $MODE ended with status $rc (inconclusive / internal error); last stderr lines:"
  tail -n 40 "$SCRATCH/stderr.log"
  [ $rc -eq 124 ] && rc=2
fi
exit $rc
