// vcheck: one binary, one sub-command per property.
//
//	vcheck <ID> quick|thorough
//	vcheck <ID> replay <path>
//	vcheck worker <name> ...   (child-process mode used by some checks)
package main

import (
	"encoding/json"
	"flag"
	"fmt"
	"os"

	"verif/internal/checks"
	"verif/internal/report"
)

func main() {
	// glog registers its flags on the default flag set; keep it quiet and on stderr
	flag.CommandLine.Parse([]string{"-logtostderr=false", "-stderrthreshold=FATAL"})
	if len(os.Args) < 3 {
		fmt.Fprintln(os.Stderr, "usage: vcheck <ID> quick|thorough|replay <path>")
		os.Exit(2)
	}
	if os.Args[1] == "worker" {
		os.Exit(checks.RunWorker(os.Args[2], os.Args[3:]))
	}
	id, mode := os.Args[1], os.Args[2]
	c, ok := checks.Registry[id]
	if !ok {
		fmt.Fprintf(os.Stderr, "unknown property %s\n", id)
		os.Exit(2)
	}
	switch mode {
	case "quick", "thorough":
		r := report.New(id, mode, c.Level)
		c.Run(r)
		os.Exit(r.Finish())
	case "replay":
		if len(os.Args) < 4 {
			fmt.Fprintln(os.Stderr, "replay needs a path")
			os.Exit(2)
		}
		b, err := os.ReadFile(os.Args[3])
		if err != nil {
			fmt.Fprintln(os.Stderr, err)
			os.Exit(2)
		}
		var doc struct {
			Case json.RawMessage `json:"case"`
			What string          `json:"what"`
		}
		if err := json.Unmarshal(b, &doc); err != nil {
			fmt.Fprintln(os.Stderr, err)
			os.Exit(2)
		}
		if c.Replay == nil {
			fmt.Printf("recorded violation: %s\ncase: %s\n(no programmatic replay for %s; the case above is the literal input)\n", doc.What, doc.Case, id)
			os.Exit(1)
		}
		r := report.New(id, "quick", c.Level)
		c.Replay(r, doc.Case)
		if r.Violations() > 0 {
			fmt.Printf("replay reproduced the violation of %s\n", id)
			os.Exit(1)
		}
		fmt.Printf("replay did not reproduce the violation of %s\n", id)
		os.Exit(0)
	default:
		fmt.Fprintln(os.Stderr, "mode must be quick, thorough or replay")
		os.Exit(2)
	}
}
