#!/usr/bin/env python3
"""Regenerates MANIFEST.json from the table below (run from /verif)."""
import json, subprocess, os

HOOK_COMMITS = subprocess.run(["git","-C","/repo","log","--format=%H","--grep=^verif hooks"],capture_output=True,text=True).stdout.split()

# id -> (level, technique, text, note, design_ref)
CHECKS = {
 "C17": ("exploration","runtime oracle over enumerated+random inputs (round-trip monitor on the real quote/codec functions)",
         "Executes the real Bquote/Bunquote and the TXT line codec on every byte string of length <=2, a hostile-alphabet cube and seeded random strings and checks the round trip and the absence of separators; exhaustive below length 3, sampled above.",
         "Trusts Go's bytes.Equal and the harness's own chunk decoder; strings longer than 40 bytes are not generated.","4/C17"),
}
CHECKS.update({
 "C16": ("exploration","runtime oracle: insertion-ordered list model vs the real CDB writer/reader over generated and hash-crafted workloads; byte comparison of dump->make",
         "Writes generated pair sequences with the real writer, reads every key back with FindStart/FindNext (and absent keys, incl. ones crafted to hash into the same wrapped probe region) and compares with an insertion-ordered list model; dump->make must reproduce the file byte for byte from a byte reader and from an *os.File.",
         "Trusts the harness model and go-spooky (used only to craft collisions, the reader/writer use their own copy). Files up to ~5e4 records.","4/C16"),
 "C18": ("exploration","runtime oracle: independent RFC 9460 encoder/walker and miekg/dns decoder over all key orderings with seeded values; malformed-input table",
         "Runs the real FromText/ToWire/ToText and the B/H line codec on every ordering of every subset of the seven keys (complete) with seeded value variants, compares the bytes with the harness's own RFC 9460 encoding, walks them for order/length conformance, decodes them with miekg/dns and checks the print->parse round trip; a table of malformed lists must be rejected (or, for empty elements, lose nothing).",
         "Trusts the harness encoder/walker and miekg/dns v1.1.50 (not used for IPv4-mapped ipv6hint, which it refuses by its own policy). Value variants are sampled, key orderings are complete.","4/C18"),
 "C15": ("exploration","runtime oracle: map-of-lists reference model vs a real RocksDB store, exhaustive short histories + random long ones; porcupine per-key linearizability of concurrent clients; dump comparison for backup/restore",
         "Drives the real rdb.RDB (Add/Del/ExecuteBatch, Backup/Restore) in scratch directories: all single-op histories up to depth 3 (thorough 4) over a 3-key x 4-value alphabet, every 2-op batch after every 1-op prefix, random long histories with 70 kB values and prefix-related values, reading every key back after every step; concurrent clients are checked per key with porcupine; backup->restore must dump equal.",
         "Trusts the harness model and porcupine v1.3.0; librocksdb itself is a prebuilt library and is only observed through the repository's cgo glue.","4/C15"),
 "C03": ("exploration","runtime oracle: brute-force longest-prefix-match model vs the real Rearranger output (predecessor search) and vs Reader.ResolverLocation/EcsLocation on four compiled configurations",
         "(a) Feeds seeded hostile subnet sets to the real Rearranger and searches its points exactly as the RocksDB driver does; (b) compiles the same kind of sets with M/8/% lines to CDB (combined and per-family prefix sets), RocksDB v1 and v2 and queries the real readers; both are compared, location and matched length, with a brute-force LPM oracle and an independent name->map model (exact before nearest wildcard, root wildcard, wildcard not applying to its apex, default map).",
         "Trusts the harness LPM/name-map models. Client prefixes have zero host bits (bits beyond the source length are exercised by C10). A fifth configuration compiles the preprocessed text (range points as '!' lines). One open finding (IPv6 subnets containing the IPv4-mapped block) is suppressed by predicate.","4/C03"),
 "C01": ("exploration","runtime oracle: reference resolver on the structured file description vs responses of the real compile->store->serve path on three storage configurations",
         "Generates well-formed data files from a structured description (all line types, syntactic variety, zones/delegations/wildcards/locations/maps), compiles each with the real compilers to CDB, RocksDB v1 and v2, loads them into the real handler and sends generated queries from clients of every location; rcode, AA, answer, SOA-on-empty and referral NS+glue are compared strictly with a reference resolver that never sees codec output, the remaining sections for soundness.",
         "Trusts the reference resolver (validated by triaging every disagreement) and miekg/dns packing for canonical rdata. Address answers are compared with max-answer >= candidates. DS follows the code's documented special case (parent side answers at a delegation point, referral strictly below); ANY/non-IN are left to C02/C13. Replies truncated for the client's buffer are compared by header only (long names are asked over TCP).","4/C01"),
 "C02": ("exploration","differential runtime monitor: the same generated query sent to six storage/compiler configurations of the same generated file, full canonical responses compared",
         "Compiles each generated data file to CDB (1/16 workers, read with combined and per-family prefix sets) and to RocksDB v1/v2 through the builder and through batches with different sizes/parallelism, loads all six into real handlers and compares the complete canonical responses (every section, OPT/ECS and scope) for generated queries including DS, ANY, CH, EDNS variants, TCP, located and hostile ECS clients. No model is involved, so it also covers what C01's oracle leaves open.",
         "A defect shared by all configurations is invisible here (C01 covers that). Randomised address selection is neutralised with max-answer >= candidates; additional addresses compared by owner+family.","4/C02"),
 "C13": ("exploration","runtime monitor with recover/pack/unpack oracle over seeded hostile wire-valid messages on every database layout and backend",
         "Feeds seeded hostile messages (all survive a pack/unpack round trip first) to real handlers loaded with generated databases of every layout (root zone, root delegation, TLD zone, empty file, ...) on CDB and RocksDB v1/v2 through UDP and TCP writers; each call must return without panic, write at most one message that packs, unpacks, has QR, the query's id and first question, fits the advertised size or has TC, and is BADVERS for EDNS version != 0; a twin query without private-use options must get the same reply.",
         "Go panics are recovered in-process; the concurrent phase runs in a child process whose death is reported as the violation. Only messages miekg/dns can pack are generated. Every UDP reply, truncated or not, must fit the advertised size.","4/C13"),
 "C10": ("exploration","runtime oracle on the wire form of replies: prescribed OPT/ECS echo and scope from the LPM/name-map model, served records checked against the reference resolver for the location the subnet selects",
         "Sends generated queries without EDNS, with EDNS only and with ECS (family 1/2, source lengths around and across the declared subnet lengths, plus cookie/DO/size variation) to real handlers on CDB (combined and per-family prefix sets), RocksDB v1 and v2; the reply is re-read from its wire bytes and must carry OPT/ECS exactly as the query did, the prescribed scope, and the records of the location selected by the subnet, else the resolver.",
         "Trusts the LPM/name-map model and the reference resolver. EDNS version 0; one in five non-octet source lengths has bits set beyond it (echoed address compared masked, as the DNS library packs it); two cache-enabled servers receive follow-up queries with other EDNS contents for the same question.","4/C10"),
 "C11": ("exploration","runtime monitor: per-response invariants over repeated identical queries from 16 goroutines, chi-square goodness-of-fit of selection counts (alarm below p=1e-9), race-detector child run",
         "For generated weighted address sets (weights incl. 0 and 2^32-1, locations, wildcard owners, NS/MX targets) every response of up to 4e5 repeated queries per configuration is checked for bound, distinctness, soundness, exact count min(max, positive-weight candidates), weight-0 exclusion and NOERROR; selection frequencies for max=1 and for additional-section addresses are tested against w_i/sum(w); the same workload runs under the Go race detector.",
         "Proportionality is statistical (false alarm < 1e-9 per configuration); the 2^-32 boundary draws of the implementation are tolerated once per configuration and re-run. A cache-enabled handler is asked with several max-answer settings in turn.","4/C11"),
 "C04": ("exploration","metamorphic runtime monitor: responses before/after edits confined to a foreign location (or an unbound map) must be identical on three storage configurations",
         "For each generated file F builds F' by adding/deleting only records tagged with a foreign location right next to the existing data (same owners, children, apexes as SOA/NS, wildcards, new delegations, glue) and by adding subnets of a map bound to no name; F and F' are compiled to CDB and RocksDB v1/v2 and every generated query from every client not located in the foreign location must get the identical canonical response.",
         "No model of the answers is needed; clients in the foreign location are skipped. Random address selection neutralised with max-answer >= candidates.","4/C04"),
 "C09": ("exploration","runtime round-trip monitor on the real codec (DecodeLn/MarshalText/MarshalMap) over generated and hand-shaped lines; dump comparison of RocksDB compiled from original vs preprocessed files",
         "(a) every line of generated files plus hand-shaped lines of all 17 types (escaped separators, wildcard owners, explicit zero fields, subnet and range-point forms) is parsed, printed, parsed again; compiled keys/values and the second print must agree, under CDB-style and RocksDB-style codecs with v1/v2 keys. (b) generated files are preprocessed with the dnsrocks-preproc codec settings and both versions compiled (v1, v2); the raw dumps must be equal multisets.",
         "Lines the codec rejects are outside the property. Two open findings (explicit SOA serial 0; IPv4-mapped ipv6hint) are suppressed by predicate.","4/C09"),
 "C07": ("exploration","runtime oracle: raw dump of the compiled CDB/RocksDB vs the sequential line codec's records, across 11 compiler settings; watchdog + structural deadlock witness; race-detector child in the thorough tier",
         "Compiles files of ~50/5 000/70 000 records (hot keys across bucket cuts and batch boundaries) with the real compilers under CDB workers 1/4/16, RocksDB builder 1/4/16 CPUs, batches 7/1000/default x parallelism 1/4/0 and v1/v2 keys, dumps the result with the repository's own iterator / a raw CDB walk and compares key -> multiset of values with the sequential codec output; a rejected line must fail every setting; a compile that does not return is a violation only with two identical all-blocked goroutine dumps.",
         "The reference is the repository's own line codec (and its accumulator for the derived subnet table), as the statement defines it. Order of values under one key is not compared. Input-delivery variants (short reads, reader fault, over-long line) may fail as a whole but must not succeed with records missing.","4/C07"),
 "C08": ("exploration","runtime oracle: raw dump after the real ApplyDiff vs raw dump of a fresh compile, over generated file chains; failure-atomicity probes with dump comparison",
         "Generates chains of data files (removals, duplicated lines, additions under existing keys, subnet churn), preprocesses each with the dnsrocks-preproc codec settings, renders the multiset line difference as -/+ lines in random order, applies it with the real RDB.ApplyDiff to the RocksDB compiled from the previous file (v1 and v2 keys) and compares the raw dump with a fresh compile of the next file; broken variants of every diff must fail and leave the dump unchanged.",
         "Trusts the harness's multiset line diff and the dump helper (repository's own cgo iterator).","4/C08"),
 "C05": ("exploration","offline checker over recorded client-boundary histories (generation stamps) produced by scheduled interleavings at verif yield points, sequential reload chains and free-running stress under the race detector",
         "Every record carries its generation; a scheduler parks one query at each of its 7 yield points while a reload of each kind (full/partial ok, missing path, unreadable, missing validation key, 1 ns timeout) runs to each of its 4 points or to completion, on CDB/RocksDB v1/v2 with cache on/off; chains of mixed reloads and an 8-client stress run feed the same checker: single generation per response, visibility after a returned reload, per-client monotonicity, failed targets never observed.",
         "Covers the produced interleavings only (listed as hook-point sequences), including queries started while a reload is held after the switch, reload chains with switch-backs, same-path full reloads and control-file requests. Two RocksDB partial-reload findings are suppressed by predicate on the history. Crash containment: scheduled runs in child processes.","4/C05"),
 "C12": ("exploration","differential runtime monitor (cache on vs off on the same query history) plus scheduled stale-insert interleavings at verif yield points decided by a generation-stamp rule; stress child under the race detector",
         "(a) two real handlers over the same database, cache on/off, receive the same generated query history with heavy key reuse across clients, types, EDNS variants and letter case; every response pair must be canonically equal. (b) with generation-stamped data and the cache on, a query is parked at each point up to the cache insertion while a full/partial reload completes (or is parked after the purge) and then resumed; queries started after the reload returned must not carry an older stamp, for positive, NXDOMAIN, referral and wildcard entries.",
         "WRSTimeout 0. Equality is up to owner-name case and random address choice (max-answer >= candidates) and includes opcode and the RD/RA/AD/CD/Z bits (queries vary RD and CD).","4/C12"),
 "C06": ("fault_enumeration","online invariant monitor on an instrumented storage backend (open/use/close events, scripted reload faults) driven by exhaustive operation sequences up to a depth bound plus random longer ones; real backends in a child process where a crash is the verdict",
         "An instrumented DBI is wrapped with the verif constructors into db.DB and FBDNSDB and driven by ALL sequences over {acquire, use/release oldest|newest reader, 8 scripted reload outcomes incl. validation failures on new/same backend and reloads that outlive the timeout, unblock, shutdown} up to depth 4 (thorough 5), then by random longer sequences; every history is completed and the per-instance invariants (no use after close, no close during a call, close count, pinned/served stay open, everything closed exactly once) are checked. Real CDB/RocksDB backends run random histories in a child process.",
         "The instrumented backend models a slow same-backend reload as a call in progress on the old backend (as a RocksDB catch-up is). Depth-bounded; timing of the 1 ms reload timeout decides which branch of db.Reload a blocked reload takes; a separate sweep finishes new-backend reloads within 300 us of a 2 ms timeout so that both branches and their overlap occur.","4/C06"),
 "C14": ("exploration","Go race detector over randomised serve/reload/stats/watcher/shutdown stress in child processes, reports read from log files and deduplicated; crash and bounded-progress monitors",
         "Race-detector build, one child process per (backend, repeat): 16 query workers with the cache on, a reloader mixing full, partial (after a real ApplyDiff / file replacement) and failing reloads, a ReportBackendStats ticker, the fsnotify watcher with a ReloadChan consumer, and a shutdown performed while queries are parked after reader acquisition; zero race reports, no panic/fatal, all workers finish.",
         "Only schedules the stress produced are covered (the evidence counts queries that overlapped a reload). librocksdb is uninstrumented: races inside it are invisible. FBDNSDB.ValidateDbKey is a start-up helper and not part of the workload. Deadlock verdicts come only from a structural witness (every serving goroutine blocked on a sync lock in three dumps, no progress); a bare watchdog firing is inconclusive.","4/C14"),
 "C19": ("exploration","runtime monitors: recording Stats/Logger implementations related to the captured response per query; exact-sum check of concurrent counters under the race detector; three-valued timed oracle on real sliding windows",
         "(a) per query, counter deltas and logger calls received through the public Stats/Logger interfaces are related to the message actually written (query/type/location/cache/outcome counters; Log exactly once with the written message) over generated and hostile queries on every database layout and backend, cache on and off; (b) 16x1e5 concurrent increments with a concurrent exporter must sum exactly, race build; (c) real sliding windows with a 3 s lifetime (verif constructor) run scripted Add schedules mixing live and expired samples at cleaner ticks, each observation decided only when every sample is unambiguously live or gone by measured timestamps.",
         "(c) depends on the real clock (the code has no clock seam): ambiguous observations are skipped and counted. Bare SERVFAIL replies are treated as failure replies, not composed responses.","4/C19"),
 "C20": ("exploration","differential runtime monitor: replies of a real fbserver.Server over loopback UDP/TCP vs the bare handler in-process, per front-handler configuration, race-detector build",
         "Starts the real server (UDP+TCP) on a loopback port for combinations of backend, whoami domain, ANY refusal and max-answer, sends generated queries with a DNS client over UDP (no EDNS/512/1232/4096, with and without ECS) and TCP and compares every reply canonically with FBDNSDB.ServeDNS on the same database, remote address and max-answer; oversized answers must be truncated within the advertised size over UDP (actual datagram length) and complete over TCP; refused ANY must be the single synthesized HINFO; whoami queries answered by the whoami handler; a question-less message gets a failure rcode and the server survives; shutdown under load.",
         "Loopback sockets only (one scenario asks from 127.0.0.2 while the listener is on 127.0.0.1); address records compared by owner and type (weighted choice is random); header bits (opcode, RD/RA/AD/CD/Z) are part of the comparison. TLS listeners are not exercised.","4/C20"),
})
BUILT = set(CHECKS)
ALL = [json.loads(l)["id"] for l in open("properties.jsonl")]
m = {
 "version": 1,
 "setup_cmd": "./setup.sh",
 "hooks": {
  "guard": "verif",
  "enable": "go build -tags verif -ldflags=-checklinkname=0 (harness module /verif with replace => /repo/dnsrocks)",
  "baseline_off_cmd": "./tools/baseline_off.sh",
  "source_commits": HOOK_COMMITS,
  "add_only": True,
 },
 "engines": [
  {"name":"vcheck","path":"cmd/vcheck","serves_properties":sorted(BUILT),"kind_free_text":"Go harness linking the real dnsrocks packages from /repo (replace directive); runtime monitors, reference-model oracles, hook scheduler, race-detector build"},
 ],
 "checks": [],
 "not_applicable": [],
 "notes": "Runtime monitoring only. KNOWN_FINDINGS.txt lists open/fixed genuine defects; seeded/ holds confirmed property-breaking patches used to test the monitors.",
}
for pid in ALL:
    if pid in CHECKS:
        level, tech, text, note, ref = CHECKS[pid]
        m["checks"].append({
            "property_id": pid,
            "quick_cmd": f"./run.sh {pid} quick",
            "thorough_cmd": f"./run.sh {pid} thorough",
            "evidence_file": f"evidence/{pid}.json",
            "replay_cmd_template": f"./run.sh {pid} replay {{path}}",
            "engine": "vcheck",
            "level_claimed": {"category": level, "text": text, "design_ref": "DESIGN.md section "+ref},
            "level_note": note,
            "technique": tech,
        })
    else:
        m["not_applicable"].append({"property_id": pid, "reason": "monitor designed (DESIGN.md section 4) but not built yet in this session; not claimed until its check exists and is silent on the unchanged tree"})
json.dump(m, open("MANIFEST.json","w"), indent=1)
print("checks:", len(m["checks"]), "not_applicable:", len(m["not_applicable"]))
