#!/bin/bash
# ./tools/sweep.sh <tier> <seed> <ID>...   runs checks one after the other, prints a one-line verdict each
tier="$1"; seed="$2"; shift 2
for id in "$@"; do
  start=$(date +%s)
  out=$(VERIF_SEED=$seed ./run.sh "$id" "$tier" 2>&1); rc=$?
  echo "== $id $tier seed=$seed rc=$rc $(( $(date +%s) - start ))s: $(echo "$out" | grep -v '^KNOWN' | tail -1 | cut -c1-200)"
  echo "$out" | grep -A2 '^VIOLATION\|^INCONCLUSIVE' | cut -c1-500 | head -20
done
