#!/opt/veriftools/pyvenv/bin/python
import json,jsonschema,glob,sys
jsonschema.validate(json.load(open('MANIFEST.json')),json.load(open('/root/.vp/MANIFEST.schema.json')));print('manifest valid')
s=json.load(open('/root/.vp/EVIDENCE.schema.json'))
for f in sorted(glob.glob('evidence/*.json')):
    try:
        jsonschema.validate(json.load(open(f)),s); print(f,'valid')
    except Exception as e:
        print(f,'INVALID',str(e)[:300]); sys.exit(1)
