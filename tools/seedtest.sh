#!/bin/bash
# tools/seedtest.sh <seed-id> <tier> <check-id>...  : applies seeded/<seed-id>/patch.diff to /repo, runs the checks, reverts.
SEED="$1"; TIER="$2"; shift 2
cd /verif
if ! git -C /repo diff --quiet; then echo "/repo has uncommitted changes; refusing"; exit 2; fi
git -C /repo apply /verif/seeded/$SEED/patch.diff || { echo "patch does not apply"; exit 2; }
# evidence written while a seeded change is applied must never be committed: the tracked files are put back afterwards
EVBK=$(mktemp -d /var/tmp/evbk.XXXXXX); cp -a /verif/evidence/. $EVBK/
trap 'git -C /repo checkout -- . ; git -C /repo status --short | head -3; cp -a $EVBK/. /verif/evidence/; rm -rf $EVBK' EXIT
for id in "$@"; do
  start=$(date +%s)
  out=$(./run.sh "$id" "$TIER" 2>&1); rc=$?
  nv=$(echo "$out" | grep -c '^VIOLATION')
  echo "SEED $SEED -> $id $TIER: rc=$rc violations=$nv ($(( $(date +%s) - start ))s)  $(echo "$out" | grep -A1 '^VIOLATION' | grep what: | head -1 | cut -c1-260)"
  echo "$out" | grep '^INCONCLUSIVE' | head -2 | cut -c1-200
done
