#!/usr/bin/env python3
"""Runs tools/baseline_off.sh and compares passing test ids with BASELINE.json stable_pass."""
import json,subprocess,sys
want=set(json.load(open('/root/.vp/BASELINE.json'))['stable_pass'])
out=subprocess.run(['./tools/baseline_off.sh'],capture_output=True,text=True).stdout
got=set()
for l in out.splitlines():
    try: e=json.loads(l)
    except Exception: continue
    if e.get('Action')=='pass' and e.get('Test'): got.add(e['Package']+'::'+e['Test'])
missing=sorted(want-got)
print('stable_pass',len(want),'passing now',len(got&want),'missing',len(missing))
for m in missing[:40]: print('  MISSING',m)
sys.exit(1 if missing else 0)
