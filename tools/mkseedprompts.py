#!/usr/bin/env python3
"""tools/mkseedprompts.py <round-number> <ID>... : creates a scratch worktree /tmp/w<round>-<ID> of /repo HEAD and a
self-contained prompt /tmp/prompts<round>/<ID>.txt for an independent sub-agent that must write a realistic change
breaking property <ID> (given only the property text and the one-line descriptions of the earlier seeded changes)."""
import json,os,subprocess,sys,glob
rnd=sys.argv[1]; ids=sys.argv[2:]
props={}
for l in open('/verif/properties.jsonl'):
    p=json.loads(l); props[p['id']]=p
tmpl='''You are given a scratch git worktree of the open-source project facebookincubator/dns (Meta's authoritative DNS server "dnsrocks", Go) at {wt} . Work ONLY inside that directory (never touch /repo or /verif; do not read /verif or /tmp/w* directories other than your own).

Build environment (offline sandbox): before every go command run
  export GOFLAGS=-mod=mod GOPROXY=off GOSUMDB=off GOTOOLCHAIN=local
The Go module is in {wt}/dnsrocks (default go is 1.23). Packages db, dnsserver, fbserver, whoami and cmd/* only link with `-ldflags=-checklinkname=0`; e.g. `cd {wt}/dnsrocks && go test -count=1 -ldflags=-checklinkname=0 ./db/ ./dnsserver/ ./fbserver/`. The project's pinned test suite is `cd {wt}/dnsrocks && go test -vet=off -count=1 ./...` (the packages that fail to LINK without the flag are expected to fail there; every package that builds must pass) plus `cd {wt}/dnsrocks/go-cdb-mods && go test -count=1 ./...`. Compiling test data: see dnsrocks/testaid and dnsrocks/testdata/data/data.in; helpers such as rdb.CompileToRDB, cdb.CreateCDB, dnsserver.NewFBDNSDBBasic/Load/ServeDNS, db.Open/NewReader exist. A build tag `verif` adds harmless no-op hooks (files *verif_on.go / verif_off.go, calls to verifYield): ignore them, do not remove them. Known unrelated flake: the dnsserver test binary can panic (nil DB in a periodic reload) if a run takes longer than 10 s on a loaded machine - just re-run. Set `export TMPDIR=$(mktemp -d)` for your test runs and remove it at the end.

Here is a semantic property the code currently satisfies:

  Title: {title}
  Statement: {statement}
  Quantified over: {quant}

YOUR TASK: produce ONE realistic source change to the project (non-test .go files under dnsrocks/, a plausible refactoring slip / optimisation / off-by-one / missing check / wrong boundary a human could make) that BREAKS this property while
  (1) the code still compiles (with and without `-tags verif`),
  (2) the existing test suites still pass (run the pinned suite AND the -ldflags=-checklinkname=0 suites of db, dnsserver, fbserver, dnsdata/... that are relevant to the files you touch),
  (3) the breakage needs something SPECIFIC to manifest - a particular interleaving, a fault at a particular point, a multi-step sequence of operations, an unusual-but-valid input, or two cooperating code sites that each look fine alone - NOT something ordinary use exposes at once.
Previous contributors already produced the following changes for this property; yours must be SUBSTANTIALLY DIFFERENT from all of them (another code site, another aspect of the statement, another triggering condition):
{prev}
Also write a DEMONSTRATION: a Go test file (or small Go program) that FAILS with your change applied and PASSES on the unchanged code, exercising the real code.

Deliverables, all inside {wt}/SEEDED/ :
  - patch.diff : output of `git -C {wt} diff` for your source change only (do NOT include the demonstration in it; the demo lives only in SEEDED/),
  - the demonstration file(s) plus a RUN.md with the exact commands to run it from a worktree (where to copy the test file, which go test command),
  - meta.json : {{"property": "{pid}", "summary": "...", "needs_to_manifest": "...", "files_touched": [...], "commands_run": [...]}}.
Before finishing: verify yourself that with the patch the demo fails and the suites pass, and with the source change reverted the demo passes. IMPORTANT: NEVER use `git stash` (the stash is shared with other worktrees of the same repository and other people are working in them right now); to flip your change use `git diff > SEEDED/patch.diff`, `git apply -R SEEDED/patch.diff`, `git apply SEEDED/patch.diff`. Leave the worktree with your source change APPLIED (uncommitted) and the demo file removed from the source tree. Keep your final answer short: what you changed, what it needs to manifest, and the outcome of your verification.'''
os.makedirs(f'/tmp/prompts{rnd}',exist_ok=True)
for pid in ids:
    p=props[pid]
    prev=[]
    for d in sorted(glob.glob(f'/verif/seeded/{pid}*/meta.json')):
        v=json.load(open(d)).get('verified_by_main_session')
        if v: prev.append("  previous: "+v['one_line']+" (needs: "+v['needs_to_manifest_short']+")")
    wt=f'/tmp/w{rnd}-{pid}'
    subprocess.run(['git','-C','/repo','worktree','add','-q','--detach',wt,'HEAD'],check=True)
    open(f'/tmp/prompts{rnd}/{pid}.txt','w').write(tmpl.format(wt=wt,title=p['title'],statement=p['statement'],quant=p['quantifier']['text'],pid=pid,prev='\n'.join(prev)))
    print(pid,wt,len(prev),'previous')
