#!/bin/bash
# Runs the repository's pinned suite with the verif guard OFF (no -tags), as BASELINE.json does.
export GOFLAGS=-mod=mod GOPROXY=off GOSUMDB=off GOTOOLCHAIN=local
for m in dnsrocks dnsrocks/go-cdb-mods; do (cd /repo/$m && go test -mod=mod -json -vet=off -count=1 -timeout 25m ./...); done
