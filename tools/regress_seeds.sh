#!/bin/bash
# tools/regress_seeds.sh <slot> <seed-id>...
# Regression of the seeded changes against the current checks, several slots in parallel: each slot has its own
# copy of /verif (/var/tmp/vreg-<slot>) and its own scratch worktree of /repo HEAD (/tmp/rg-<slot>, removed at the
# end); the check named first in the seed's meta.json (caught_by_quick_tier_of) is run with VP_RUN_REPO pointing at
# the patched worktree. Prints one line per seed. Nothing under /verif/evidence is touched.
SLOT="$1"; shift
V=/var/tmp/vreg-$SLOT; W=/tmp/rg-$SLOT
rm -rf $V; mkdir -p $V; rsync -a --exclude bin --exclude work --exclude replays --exclude .git /verif/ $V/
git -C /repo worktree remove --force $W >/dev/null 2>&1
for SEED in "$@"; do
  CHECK=$(python3 -c "import json;print(json.load(open('/verif/seeded/$SEED/meta.json'))['verified_by_main_session']['caught_by_quick_tier_of'][0])" 2>/dev/null)
  [ -z "$CHECK" ] && { echo "REGRESS $SEED: no meta"; continue; }
  git -C /repo worktree add -q --detach $W HEAD || { echo "REGRESS $SEED: worktree failed"; continue; }
  if ! git -C $W apply /verif/seeded/$SEED/patch.diff 2>/dev/null; then echo "REGRESS $SEED -> $CHECK: PATCH DOES NOT APPLY to HEAD"; git -C /repo worktree remove --force $W; continue; fi
  start=$(date +%s)
  out=$(cd $V && VP_RUN_REPO=$W ./run.sh $CHECK quick 2>&1); rc=$?
  nv=$(echo "$out" | grep -c '^VIOLATION')
  echo "REGRESS $SEED -> $CHECK: rc=$rc violations=$nv ($(( $(date +%s) - start ))s) $(echo "$out" | grep -A1 '^VIOLATION' | grep what: | head -1 | cut -c1-160)"
  git -C /repo worktree remove --force $W >/dev/null 2>&1
done
rm -rf $V
