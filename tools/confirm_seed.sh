#!/bin/bash
# tools/confirm_seed.sh <ID> <demo-file> <dest-dir-relative-to-dnsrocks> <go test args...>
# Confirms a seeded change in a scratch worktree: patch applies, builds with/without the tag, the pinned
# suite and the unpinned serve-path suites pass, the demo FAILS with the patch and PASSES without it.
set -u
ID="$1"; DEMO="$2"; DEST="$3"; shift 3
export GOFLAGS=-mod=mod GOPROXY=off GOSUMDB=off GOTOOLCHAIN=local
S=/verif/seeded/$ID
WT=/tmp/cf-$ID
git -C /repo worktree remove --force $WT >/dev/null 2>&1
git -C /repo worktree add -q --detach $WT HEAD || exit 2
trap 'git -C /repo worktree remove --force $WT >/dev/null 2>&1; rm -rf /tmp/cf-tmp-$ID' EXIT
export TMPDIR=/tmp/cf-tmp-$ID; mkdir -p $TMPDIR
cd $WT
git apply $S/patch.diff || { echo "RESULT $ID patch does not apply"; exit 1; }
cd dnsrocks
go build ./... 2>&1 | grep -v "^#\|link:" | head -5
go build -tags verif -ldflags=-checklinkname=0 ./... || { echo "RESULT $ID does not build with tag"; exit 1; }
go build -ldflags=-checklinkname=0 ./... || { echo "RESULT $ID does not build"; exit 1; }
# pinned suite (hooks off), compared with the baseline ids
PASS=$( (go test -mod=mod -json -vet=off -count=1 -timeout 25m ./... ; cd go-cdb-mods && go test -mod=mod -json -vet=off -count=1 ./...) 2>/dev/null | python3 -c "
import json,sys
want=set(json.load(open('/root/.vp/BASELINE.json'))['stable_pass']); got=set()
for l in sys.stdin:
    try: e=json.loads(l)
    except Exception: continue
    if e.get('Action')=='pass' and e.get('Test'): got.add(e['Package']+'::'+e['Test'])
m=sorted(want-got); print(len(m), ' '.join(m[:5]))")
echo "pinned suite missing: $PASS"
UNP=$(go test -count=1 -ldflags=-checklinkname=0 ./db/ ./dnsserver/ ./fbserver/ ./whoami/ 2>&1 | grep -c "^ok")
if [ "$UNP" != 4 ]; then UNP=$(go test -count=1 -ldflags=-checklinkname=0 ./db/ ./dnsserver/ ./fbserver/ ./whoami/ 2>&1 | grep -c "^ok"); fi
echo "unpinned suites ok: $UNP/4"
# DEMO may be a comma separated list of file:dest pairs; CF_DIR = directory (relative to dnsrocks) to run go test in
IFS=',' read -ra PAIRS <<< "$DEMO"
for pr in "${PAIRS[@]}"; do
  f="${pr%%:*}"; d="$DEST"; [[ "$pr" == *:* ]] && d="${pr##*:}"
  mkdir -p $d; cp $S/$f $d/
done
RUNDIR="${CF_DIR:-.}"
(cd $RUNDIR && go test -count=1 -ldflags=-checklinkname=0 "$@") > $TMPDIR/with.log 2>&1; WITH=$?
git -C $WT apply -R $S/patch.diff
(cd $RUNDIR && go test -count=1 -ldflags=-checklinkname=0 "$@") > $TMPDIR/without.log 2>&1; WITHOUT=$?
echo "demo with patch: exit $WITH ($(grep -c -- '--- FAIL' $TMPDIR/with.log) FAIL lines); without patch: exit $WITHOUT"
if [ "$WITH" != 0 ] && [ "$WITHOUT" = 0 ] && [ "${PASS%% *}" = 0 ] && [ "$UNP" = 4 ]; then echo "RESULT $ID CONFIRMED"; else echo "RESULT $ID NOT-CONFIRMED"; tail -5 $TMPDIR/without.log; fi
