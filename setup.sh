#!/bin/bash
# Offline build of the harness binaries (every check rebuilds anyway).
set -eu
cd "$(dirname "$0")"
export GOFLAGS=-mod=mod GOPROXY=off GOSUMDB=off GOTOOLCHAIN=local CGO_ENABLED=1
mkdir -p bin evidence replays
go build -tags verif -ldflags=-checklinkname=0 -o bin/vcheck ./cmd/vcheck
go build -race -tags verif -ldflags=-checklinkname=0 -o bin/vcheck-race ./cmd/vcheck
echo setup ok
